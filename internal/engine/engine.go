// Package engine is the coordinator/worker skeleton shared by every check:
// deterministic sharding of an enumeration over worker processes, counters,
// distinct-outcome sets, samples, violation records, replay, known-findings
// matching and the evidence writer.
package engine

import (
	"bufio"
	"encoding/binary"
	"encoding/json"
	"fmt"
	"hash/fnv"
	"os"
	"os/exec"
	"path/filepath"
	"runtime"
	"sort"
	"strconv"
	"strings"
	"sync/atomic"
	"time"
)

// Check is one property's machinery.
type Check struct {
	ID          string
	Level       string // exploration | fault_enumeration | model_checking
	Rule        string
	Assumptions []string
	// Run enumerates the whole space; it must be deterministic and call
	// c.Mine() (or c.MineIdx) to decide which cases this worker executes.
	Run func(c *Ctx)
	// Replay re-executes one witness (as recorded by c.Begin / c.Violation)
	// and records violations through c exactly as Run would.
	Replay func(c *Ctx, witness string)
	// SingleProcess forces one worker (used by checks that are cheap).
	SingleProcess bool
	// QuickDeadline/ThoroughDeadline override the default internal deadlines.
	QuickDeadline, ThoroughDeadline time.Duration
}

type Violation struct {
	Clause  string `json:"clause"`
	Key     string `json:"key"`
	Witness string `json:"witness"`
	Detail  string `json:"detail"`
}

type Ctx struct {
	ID        string
	Tier      string
	Seed      int64
	Worker    int
	NWorkers  int
	Replaying bool

	deadline time.Time
	Capped   bool
	CapNote  string

	caseNo   int64
	Evals    int64
	Counters map[string]int64
	Maxes    map[string]int64
	Notes    map[string]string
	distinct map[uint64]struct{}
	sets     map[string]map[uint64]struct{}
	trivial  int64
	samples  []string
	nextSamp int64
	lastCase string
	Viol     []Violation
	violKeys map[string]int
	statusF  *os.File
	cur      string
	curA     atomic.Value // copy of cur for the watchdog goroutine
	sub      int64        // index inside a group case (see SetSub); -1 when unused
	beat     int64
}

func (c *Ctx) Thorough() bool { return c.Tier == "thorough" }

// Mine advances the global case counter and reports whether this worker
// owns the case.
func (c *Ctx) Mine() bool {
	n := c.caseNo
	c.caseNo++
	if c.NWorkers <= 1 {
		return true
	}
	return int((n+c.Seed)%int64(c.NWorkers)) == c.Worker
}

func (c *Ctx) MineIdx(i int64) bool {
	if c.NWorkers <= 1 {
		return true
	}
	return int((i+c.Seed)%int64(c.NWorkers)) == c.Worker
}

// Expired reports that the internal deadline has passed; the run then ends
// with exhaustive=false.
func (c *Ctx) Expired() bool {
	if c.Capped {
		return true
	}
	if !c.deadline.IsZero() && c.Evals&0xff == 0 && time.Now().After(c.deadline) {
		c.Capped = true
		if c.CapNote == "" {
			c.CapNote = "internal deadline reached"
		}
		return true
	}
	return false
}

// Begin records the case in flight (so a process death can be attributed)
// and counts one execution on the implementation.
// SetSub records which execution of a group case is in flight: if the process has to be ended by the watchdog (or
// dies), the case is attributed to "<group witness>#<i>". It also counts as a heartbeat.
func (c *Ctx) SetSub(i int) {
	atomic.StoreInt64(&c.sub, int64(i))
	atomic.AddInt64(&c.beat, 1)
}

// Beat tells the watchdog that the case in flight is making progress (used by checks whose cases are groups of
// many executions).
func (c *Ctx) Beat() { atomic.AddInt64(&c.beat, 1) }

func (c *Ctx) Begin(witness string) {
	c.Evals++
	atomic.AddInt64(&c.beat, 1)
	c.cur = witness
	c.curA.Store(witness)
	atomic.StoreInt64(&c.sub, -1)
	if c.statusF != nil {
		b := witness
		if len(b) > 60000 {
			b = b[:60000]
		}
		buf := make([]byte, 4+len(b))
		binary.LittleEndian.PutUint32(buf, uint32(len(b)))
		copy(buf[4:], b)
		c.statusF.WriteAt(buf, 0)
	}
	if c.Evals >= c.nextSamp && len(c.samples) < 12 {
		c.samples = append(c.samples, clip(witness, 600))
		if c.nextSamp == 0 {
			c.nextSamp = 1
		} else {
			c.nextSamp *= 7
		}
	}
	c.lastCase = witness
}

func clip(s string, n int) string {
	if len(s) > n {
		return s[:n] + "…"
	}
	return s
}

// Outcome records the observable outcome of a non-trivial case.
func (c *Ctx) Outcome(o string) {
	h := fnv.New64a()
	h.Write([]byte(o))
	c.distinct[h.Sum64()] = struct{}{}
}

func (c *Ctx) Trivial() { c.trivial++ }

// SetAdd adds key to the named set; the evidence reports the size of the
// union over all workers under that name (used for states of a BFS).
// It reports whether the key was new to this worker.
func (c *Ctx) SetAdd(name, key string) bool {
	m := c.sets[name]
	if m == nil {
		m = map[uint64]struct{}{}
		c.sets[name] = m
	}
	h := fnv.New64a()
	h.Write([]byte(key))
	k := h.Sum64()
	if _, ok := m[k]; ok {
		return false
	}
	m[k] = struct{}{}
	return true
}

func (c *Ctx) Count(name string, n int64) { c.Counters[name] += n }

func (c *Ctx) Note(name, v string) { c.Notes[name] = v }

// Max records a counter that is merged across workers by maximum.
func (c *Ctx) Max(name string, v int64) {
	if v > c.Maxes[name] {
		c.Maxes[name] = v
	}
}

func (c *Ctx) AddSample(s string) {
	if len(c.samples) < 40 {
		c.samples = append(c.samples, clip(s, 600))
	}
}

// Violation records a property violation. key identifies the class
// (clause + minimal witness shape); witness must be replayable.
func (c *Ctx) Violation(clause, key, witness, detail string) {
	if c.violKeys[key] >= 3 && !c.Replaying {
		c.violKeys[key]++
		return
	}
	c.violKeys[key]++
	c.Viol = append(c.Viol, Violation{Clause: clause, Key: key, Witness: witness, Detail: clip(detail, 2000)})
}

type workerOut struct {
	Evals    int64             `json:"evals"`
	Cases    int64             `json:"cases"`
	Trivial  int64             `json:"trivial"`
	Counters map[string]int64  `json:"counters"`
	Maxes    map[string]int64  `json:"maxes"`
	Notes    map[string]string `json:"notes"`
	Samples  []string          `json:"samples"`
	Last     string            `json:"last"`
	Viol     []Violation       `json:"viol"`
	ViolKeys map[string]int    `json:"violkeys"`
	Capped   bool              `json:"capped"`
	CapNote  string            `json:"capnote"`
	Hashes   []uint64          `json:"-"`
}

func newCtx(ch *Check, tier string, seed int64, w, n int) *Ctx {
	c := &Ctx{ID: ch.ID, Tier: tier, Seed: seed, Worker: w, NWorkers: n,
		Counters: map[string]int64{}, Maxes: map[string]int64{}, Notes: map[string]string{}, distinct: map[uint64]struct{}{}, sets: map[string]map[uint64]struct{}{}, violKeys: map[string]int{}}
	return c
}

var registry = map[string]*Check{}

func Register(ch *Check) { registry[ch.ID] = ch }

func IDs() []string {
	var ids []string
	for id := range registry {
		ids = append(ids, id)
	}
	sort.Strings(ids)
	return ids
}

func verifDir() string {
	if d := os.Getenv("VERIF_DIR"); d != "" {
		return d
	}
	return "/verif"
}

// Main is the entry point of cmd/vcheck.
//
//	vcheck <id> quick|thorough            coordinator
//	vcheck <id> <tier> --worker i/n --out dir
//	vcheck <id> replay <file>             re-run one witness, exit 1 if it violates
func Main() {
	if len(os.Args) < 3 {
		fmt.Fprintf(os.Stderr, "usage: vcheck <id> quick|thorough | vcheck <id> replay <file>\nchecks: %v\n", IDs())
		os.Exit(2)
	}
	id := os.Args[1]
	ch := registry[id]
	if ch == nil {
		fmt.Fprintf(os.Stderr, "HARNESS-ERROR unknown check %s\n", id)
		os.Exit(2)
	}
	seed := int64(0)
	if s := os.Getenv("VERIF_SEED"); s != "" {
		if v, err := strconv.ParseInt(s, 10, 64); err == nil {
			seed = v
		}
	}
	mode := os.Args[2]
	if mode == "replay" {
		os.Exit(replayMain(ch, os.Args[3], seed))
	}
	tier := mode
	if tier != "quick" && tier != "thorough" {
		fmt.Fprintf(os.Stderr, "HARNESS-ERROR bad tier %s\n", tier)
		os.Exit(2)
	}
	worker, nworkers, out := -1, 0, ""
	for i := 3; i < len(os.Args); i++ {
		switch os.Args[i] {
		case "--worker":
			fmt.Sscanf(os.Args[i+1], "%d/%d", &worker, &nworkers)
			i++
		case "--out":
			out = os.Args[i+1]
			i++
		}
	}
	if worker >= 0 {
		workerMain(ch, tier, seed, worker, nworkers, out)
		return
	}
	os.Exit(coordinate(ch, tier, seed))
}

func deadlineFor(ch *Check, tier string) time.Duration {
	if tier == "quick" {
		if ch.QuickDeadline > 0 {
			return ch.QuickDeadline
		}
		return 150 * time.Second
	}
	if ch.ThoroughDeadline > 0 {
		return ch.ThoroughDeadline
	}
	return 40 * time.Minute
}

func workerMain(ch *Check, tier string, seed int64, w, n int, out string) {
	c := newCtx(ch, tier, seed, w, n)
	c.deadline = time.Now().Add(deadlineFor(ch, tier))
	if out != "" {
		f, err := os.OpenFile(filepath.Join(out, fmt.Sprintf("w%d.status", w)), os.O_CREATE|os.O_RDWR, 0o644)
		if err == nil {
			c.statusF = f
		}
	}
	startWatchdog(c)
	ch.Run(c)
	wo := workerOut{Evals: c.Evals, Cases: c.caseNo, Trivial: c.trivial, Counters: c.Counters, Maxes: c.Maxes, Notes: c.Notes,
		Samples: c.samples, Last: clip(c.lastCase, 600), Viol: c.Viol, ViolKeys: c.violKeys, Capped: c.Capped, CapNote: c.CapNote}
	b, _ := json.Marshal(wo)
	os.WriteFile(filepath.Join(out, fmt.Sprintf("w%d.json", w)), b, 0o644)
	hf, _ := os.Create(filepath.Join(out, fmt.Sprintf("w%d.hashes", w)))
	bw := bufio.NewWriter(hf)
	var buf [8]byte
	for h := range c.distinct {
		binary.LittleEndian.PutUint64(buf[:], h)
		bw.Write(buf[:])
	}
	bw.Flush()
	hf.Close()
	for name, m := range c.sets {
		sf, _ := os.Create(filepath.Join(out, fmt.Sprintf("w%d.set.%s", w, name)))
		sw := bufio.NewWriter(sf)
		for h := range m {
			binary.LittleEndian.PutUint64(buf[:], h)
			sw.Write(buf[:])
		}
		sw.Flush()
		sf.Close()
	}
}

// startWatchdog ends the process (exit 97) when one case has been in
// flight for more than 90 s; the coordinator attributes the death to it.
func startWatchdog(c *Ctx) {
	go func() {
		last := atomic.LoadInt64(&c.beat)
		stale := 0
		for {
			time.Sleep(5 * time.Second)
			cur := atomic.LoadInt64(&c.beat)
			if cur == last {
				stale++
			} else {
				stale = 0
				last = cur
			}
			if stale >= 18 {
				fmt.Fprintf(os.Stderr, "WATCHDOG: case in flight for >90s\n")
				if sub := atomic.LoadInt64(&c.sub); sub >= 0 && c.statusF != nil {
					if w, ok := c.curA.Load().(string); ok {
						b := fmt.Sprintf("%s#%d", w, sub)
						buf := make([]byte, 4+len(b))
						binary.LittleEndian.PutUint32(buf, uint32(len(b)))
						copy(buf[4:], b)
						c.statusF.WriteAt(buf, 0)
					}
				}
				os.Exit(97)
			}
		}
	}()
}

type replayFile struct {
	Property string `json:"property"`
	Clause   string `json:"clause"`
	Key      string `json:"key"`
	Witness  string `json:"witness"`
	Detail   string `json:"detail"`
	Note     string `json:"note,omitempty"`
}

// replayMain returns 1 if the witness violates (same key if the file names
// one), 0 if it does not, 2 on a harness problem.
func replayMain(ch *Check, file string, seed int64) int {
	b, err := os.ReadFile(file)
	if err != nil {
		fmt.Fprintf(os.Stderr, "HARNESS-ERROR %v\n", err)
		return 3
	}
	var rf replayFile
	if err := json.Unmarshal(b, &rf); err != nil {
		fmt.Fprintf(os.Stderr, "HARNESS-ERROR %v\n", err)
		return 3
	}
	c := newCtx(ch, "quick", seed, 0, 1)
	c.Replaying = true
	if ch.Replay == nil {
		fmt.Fprintf(os.Stderr, "HARNESS-ERROR check %s has no replay\n", ch.ID)
		return 3
	}
	startWatchdog(c)
	ch.Replay(c, rf.Witness)
	hit := false
	for _, v := range c.Viol {
		fmt.Printf("replay: clause=%s key=%s\n  witness=%s\n  detail=%s\n", v.Clause, v.Key, v.Witness, v.Detail)
		if rf.Key == "" || v.Key == rf.Key || v.Key == "*" {
			hit = true
		}
	}
	if hit {
		fmt.Printf("VIOLATION property=%s replay=%s\n", ch.ID, file)
		return 1
	}
	fmt.Printf("replay: no violation of key %q reproduced\n", rf.Key)
	return 0
}

type knownFinding struct {
	prop, key, text string
}

func loadKnown() []knownFinding {
	var out []knownFinding
	b, err := os.ReadFile(filepath.Join(verifDir(), "KNOWN_FINDINGS.txt"))
	if err != nil {
		return nil
	}
	for _, line := range strings.Split(string(b), "\n") {
		line = strings.TrimSpace(line)
		if !strings.HasPrefix(line, "finding:") {
			continue
		}
		rest := strings.TrimSpace(strings.TrimPrefix(line, "finding:"))
		// finding: property=C14 key=<key> :: text
		parts := strings.SplitN(rest, " :: ", 2)
		head := parts[0]
		text := ""
		if len(parts) > 1 {
			text = parts[1]
		}
		var kf knownFinding
		kf.text = text
		if i := strings.Index(head, "property="); i >= 0 {
			r := head[i+len("property="):]
			if j := strings.Index(r, " "); j >= 0 {
				kf.prop = r[:j]
			} else {
				kf.prop = r
			}
		}
		if i := strings.Index(head, "key="); i >= 0 {
			kf.key = strings.TrimSpace(head[i+len("key="):])
		}
		out = append(out, kf)
	}
	return out
}

func coordinate(ch *Check, tier string, seed int64) int {
	start := time.Now()
	vd := verifDir()
	n := runtime.NumCPU()
	if v := os.Getenv("VERIF_WORKERS"); v != "" {
		if k, err := strconv.Atoi(v); err == nil && k > 0 {
			n = k
		}
	}
	if ch.SingleProcess {
		n = 1
	}
	tmp, err := os.MkdirTemp("", "vcheck-"+ch.ID+"-")
	if err != nil {
		fmt.Fprintf(os.Stderr, "HARNESS-ERROR %v\n", err)
		return 2
	}
	defer os.RemoveAll(tmp)

	type proc struct {
		cmd *exec.Cmd
		err error
	}
	procs := make([]*proc, n)
	for i := 0; i < n; i++ {
		cmd := exec.Command(selfExe(), ch.ID, tier, "--worker", fmt.Sprintf("%d/%d", i, n), "--out", tmp)
		cmd.Stdout = nil // the library prints diagnostics of its own to stdout
		lf, _ := os.Create(filepath.Join(tmp, fmt.Sprintf("w%d.stderr", i)))
		cmd.Stderr = lf
		cmd.Env = append(os.Environ(), "GOMAXPROCS=1", "GOGC=300")
		wd := filepath.Join(tmp, fmt.Sprintf("cwd%d", i))
		os.MkdirAll(wd, 0o755)
		cmd.Dir = wd
		procs[i] = &proc{cmd: cmd}
		if err := cmd.Start(); err != nil {
			fmt.Fprintf(os.Stderr, "HARNESS-ERROR start worker: %v\n", err)
			return 2
		}
	}
	for _, p := range procs {
		p.err = p.cmd.Wait()
	}

	merged := workerOut{Counters: map[string]int64{}, Maxes: map[string]int64{}, Notes: map[string]string{}, ViolKeys: map[string]int{}}
	distinct := map[uint64]struct{}{}
	sets := map[string]map[uint64]struct{}{}
	var deaths []Violation
	for i, p := range procs {
		b, rerr := os.ReadFile(filepath.Join(tmp, fmt.Sprintf("w%d.json", i)))
		if p.err != nil || rerr != nil {
			// worker died: attribute to the case in flight
			st, _ := os.ReadFile(filepath.Join(tmp, fmt.Sprintf("w%d.status", i)))
			w := ""
			if len(st) >= 4 {
				l := int(binary.LittleEndian.Uint32(st))
				if 4+l <= len(st) {
					w = string(st[4 : 4+l])
				}
			}
			se, _ := os.ReadFile(filepath.Join(tmp, fmt.Sprintf("w%d.stderr", i)))
			deaths = append(deaths, Violation{Clause: "process-death", Key: "process-death", Witness: w,
				Detail: fmt.Sprintf("worker %d died (%v); stderr head: %s", i, p.err, clip(string(se), 1500))})
			continue
		}
		var wo workerOut
		if err := json.Unmarshal(b, &wo); err != nil {
			fmt.Fprintf(os.Stderr, "HARNESS-ERROR bad worker output: %v\n", err)
			return 2
		}
		merged.Evals += wo.Evals
		if wo.Cases > merged.Cases {
			merged.Cases = wo.Cases
		}
		merged.Trivial += wo.Trivial
		for k, v := range wo.Counters {
			merged.Counters[k] += v
		}
		for k, v := range wo.Notes {
			merged.Notes[k] = v
		}
		for k, v := range wo.Maxes {
			if v > merged.Maxes[k] {
				merged.Maxes[k] = v
			}
		}
		if i < 3 {
			merged.Samples = append(merged.Samples, wo.Samples...)
		}
		if wo.Last != "" {
			merged.Last = wo.Last
		}
		merged.Viol = append(merged.Viol, wo.Viol...)
		for k, v := range wo.ViolKeys {
			merged.ViolKeys[k] += v
		}
		if wo.Capped {
			merged.Capped = true
			merged.CapNote = wo.CapNote
		}
		hb, _ := os.ReadFile(filepath.Join(tmp, fmt.Sprintf("w%d.hashes", i)))
		for j := 0; j+8 <= len(hb); j += 8 {
			distinct[binary.LittleEndian.Uint64(hb[j:])] = struct{}{}
		}
		setFiles, _ := filepath.Glob(filepath.Join(tmp, fmt.Sprintf("w%d.set.*", i)))
		for _, sfn := range setFiles {
			name := strings.TrimPrefix(filepath.Base(sfn), fmt.Sprintf("w%d.set.", i))
			if sets[name] == nil {
				sets[name] = map[uint64]struct{}{}
			}
			sb, _ := os.ReadFile(sfn)
			for j := 0; j+8 <= len(sb); j += 8 {
				sets[name][binary.LittleEndian.Uint64(sb[j:])] = struct{}{}
			}
		}
	}
	if merged.Last != "" {
		merged.Samples = append(merged.Samples, merged.Last)
	}

	// ---- violations: group by key, smallest witness first, confirm by replay
	os.MkdirAll(filepath.Join(vd, "replays", ch.ID), 0o755)
	byKey := map[string][]Violation{}
	for _, v := range append(merged.Viol, deaths...) {
		byKey[v.Key] = append(byKey[v.Key], v)
	}
	keys := make([]string, 0, len(byKey))
	for k := range byKey {
		keys = append(keys, k)
	}
	sort.Strings(keys)
	// replay order: interleave the clauses (second path component of the key), so that one
	// noisy clause cannot use up the replay budget before the others are looked at
	{
		clauseOf := func(k string) string {
			parts := strings.SplitN(k, "/", 3)
			if len(parts) >= 2 {
				return parts[1]
			}
			return k
		}
		rank := map[string]int{}
		type kr struct {
			k string
			r int
		}
		var krs []kr
		for _, k := range keys {
			c := clauseOf(k)
			krs = append(krs, kr{k, rank[c]})
			rank[c]++
		}
		sort.SliceStable(krs, func(a, b int) bool { return krs[a].r < krs[b].r })
		for i := range krs {
			keys[i] = krs[i].k
		}
	}
	known := loadKnown()
	exit := 0
	nviol := 0
	harnessErr := false
	knownPrinted := map[string]bool{}
	var violSamples []map[string]string
	confirmed := 0 // unlisted classes that reproduced on replay
	attempts := 0  // unlisted classes replayed
	skippedKeys := 0
	for _, k := range keys {
		// replaying every class of a badly broken tree would take hours: confirm the
		// listed ones and the first 6 unlisted ones, count the rest
		isListed := false
		for _, kf := range known {
			if kf.prop == ch.ID && kf.key == k {
				isListed = true
			}
		}
		if !isListed {
			if confirmed >= 6 || attempts >= 40 {
				skippedKeys++
				if os.Getenv("VERIF_VERBOSE") != "" {
					fmt.Printf("  unreplayed class: %s (%d)  e.g. %s\n", k, merged.ViolKeys[k], clip(byKey[k][0].Witness, 200))
				}
				continue
			}
			attempts++
		}
		vs := byKey[k]
		sort.Slice(vs, func(a, b int) bool {
			if len(vs[a].Witness) != len(vs[b].Witness) {
				return len(vs[a].Witness) < len(vs[b].Witness)
			}
			return vs[a].Witness < vs[b].Witness
		})
		v := vs[0]
		h := fnv.New64a()
		h.Write([]byte(k))
		file := filepath.Join(vd, "replays", ch.ID, fmt.Sprintf("%016x.json", h.Sum64()))
		rb, _ := json.MarshalIndent(replayFile{Property: ch.ID, Clause: v.Clause, Key: v.Key, Witness: v.Witness, Detail: v.Detail}, "", " ")
		os.WriteFile(file, rb, 0o644)
		// confirm: the same witness must violate on every one of 5 fresh runs
		reps := 5
		if v.Clause == "process-death" {
			reps = 3
		}
		ok := 0
		for r := 0; r < reps; r++ {
			cmd := exec.Command(selfExe(), ch.ID, "replay", file)
			cmd.Dir = tmp
			err := cmd.Run()
			if ee, isEE := err.(*exec.ExitError); isEE {
				if ee.ExitCode() == 1 || (v.Clause == "process-death" && ee.ExitCode() != 0 && ee.ExitCode() != 3) {
					ok++
				}
			}
		}
		if ok != reps {
			fmt.Printf("HARNESS-ERROR property=%s key=%q: violation did not reproduce on replay (%d/%d): %s\n", ch.ID, k, ok, reps, file)
			harnessErr = true
			continue
		}
		if !isListed {
			confirmed++
		}
		isKnown := false
		for _, kf := range known {
			if kf.prop == ch.ID && kf.key == k {
				isKnown = true
				if !knownPrinted[k] {
					fmt.Printf("KNOWN-FINDING: property=%s key=%s %s\n", ch.ID, k, kf.text)
					knownPrinted[k] = true
				}
			}
		}
		violSamples = append(violSamples, map[string]string{"key": k, "witness": clip(v.Witness, 400), "detail": clip(v.Detail, 400), "known": strconv.FormatBool(isKnown)})
		if isKnown {
			continue
		}
		nviol++
		exit = 1
		fmt.Printf("VIOLATION property=%s replay=%s\n  key=%s count=%d\n  witness=%s\n  detail=%s\n", ch.ID, file, k, merged.ViolKeys[k], clip(v.Witness, 500), clip(v.Detail, 800))
	}

	if skippedKeys > 0 {
		fmt.Printf("  (%d further violation classes were found and not replayed individually)\n", skippedKeys)
	}
	// ---- evidence
	cov := map[string]any{
		"evaluations":         merged.Evals,
		"distinct_nontrivial": len(distinct),
		"rule":                ch.Rule,
		"samples":             merged.Samples,
		"exhaustive":          !merged.Capped,
		"cases_enumerated":    merged.Cases,
		"trivial_cases":       merged.Trivial,
		"workers":             n,
	}
	if merged.Capped {
		cov["cap"] = merged.CapNote
	}
	for k, v := range merged.Counters {
		cov[k] = v
	}
	for k, v := range merged.Notes {
		cov[k] = v
	}
	for k, v := range merged.Maxes {
		cov[k] = v
	}
	for k, m := range sets {
		cov[k] = len(m)
	}
	if len(violSamples) > 0 {
		cov["violation_classes"] = violSamples
	}
	if ch.Level == "model_checking" {
		if _, ok := cov["traces_validated_against_impl"]; !ok {
			cov["traces_validated_against_impl"] = cov["transitions"]
		}
	}
	ev := map[string]any{
		"property_id": ch.ID,
		"tier":        tier,
		"seed":        seed,
		"level":       ch.Level,
		"coverage":    cov,
		"assumptions": ch.Assumptions,
		"wall_s":      time.Since(start).Seconds(),
		"violations":  nviol,
	}
	eb, _ := json.MarshalIndent(ev, "", " ")
	os.MkdirAll(filepath.Join(vd, "evidence"), 0o755)
	if err := os.WriteFile(filepath.Join(vd, "evidence", ch.ID+".json"), append(eb, '\n'), 0o644); err != nil {
		fmt.Fprintf(os.Stderr, "HARNESS-ERROR %v\n", err)
		return 2
	}
	fmt.Printf("%s %s: evaluations=%d distinct=%d exhaustive=%v violations=%d known=%d wall=%.1fs\n", ch.ID, tier, merged.Evals, len(distinct), !merged.Capped, nviol, len(knownPrinted), time.Since(start).Seconds())
	for _, k := range sortedKeys(merged.Counters) {
		fmt.Printf("  %s=%d\n", k, merged.Counters[k])
	}
	if harnessErr && exit == 0 {
		return 2
	}
	return exit
}

func selfExe() string {
	if p, err := os.Executable(); err == nil {
		return p
	}
	p, _ := filepath.Abs(os.Args[0])
	return p
}

func sortedKeys(m map[string]int64) []string {
	ks := make([]string, 0, len(m))
	for k := range m {
		ks = append(ks, k)
	}
	sort.Strings(ks)
	return ks
}
