package ref

import (
	"fmt"
	"strconv"
	"strings"
)

// R3 — an independent reading of infix text: its own tokeniser (with the
// documented sign rule) and a precedence-climbing parser over the binding
// powers stated in the property: assignment 10 (right), comma 15, and/or 30
// (right), comparisons 40, + - 50, * / mod 60, ** 65 (right), not 70,
// indexing/slicing 80. The result is rendered the way the implementation
// prints the expansion.

type r3tok struct {
	kind byte // 'n' number, 'i' identifier, 'o' operator, 's' s-expression, 'b' block, 'x' index
	text string
	sub  []r3tok // for blocks and indexes: inner tokens
}

func isDigit(c byte) bool { return c >= '0' && c <= '9' }
func isHexDigit(c byte) bool {
	return isDigit(c) || (c >= 'a' && c <= 'f') || (c >= 'A' && c <= 'F')
}
func isIdent(c byte) bool {
	return c == '_' || c == '.' || (c >= 'a' && c <= 'z') || (c >= 'A' && c <= 'Z') || isDigit(c)
}

func canStartSignedAfter(c byte) bool {
	switch c {
	case 0, ' ', '\t', '\n', '\r', '(', '[', '{', ',', ';', ':', '+', '-', '*', '/', '<', '>', '=', '!', '&', '|':
		return true
	}
	return false
}

// "<-" and "->" are operators of the language too (maximal munch): a text that
// contains them is outside the precedence table and is rejected here.
var r3ops = []string{"<-", "->", ":=", "+=", "-=", "==", "!=", "<=", ">=", "**", "++", "--", "=", "<", ">", "+", "-", "*", "/", ",", ";", ":"}

// R3Tokenize splits infix text into tokens; stop is the closing bracket that
// ends the current nesting level (0 at top level). It returns the tokens and
// the position after the closing bracket.
func r3tokenize(s string, pos int, stop byte) ([]r3tok, int, error) {
	var toks []r3tok
	for pos < len(s) {
		c := s[pos]
		switch {
		case c == ' ' || c == '\t' || c == '\n' || c == '\r':
			pos++
		case c == stop && stop != 0:
			return toks, pos + 1, nil
		case c == '(':
			// an s-expression operand: balanced text, normalised spacing
			depth, j := 0, pos
			for j < len(s) {
				if s[j] == '(' {
					depth++
				} else if s[j] == ')' {
					depth--
					if depth == 0 {
						break
					}
				}
				j++
			}
			if j >= len(s) {
				return nil, 0, fmt.Errorf("unbalanced (")
			}
			toks = append(toks, r3tok{kind: 's', text: strings.Join(strings.Fields(s[pos:j+1]), " ")})
			pos = j + 1
		case c == '{':
			sub, np, err := r3tokenize(s, pos+1, '}')
			if err != nil {
				return nil, 0, err
			}
			toks = append(toks, r3tok{kind: 'b', sub: sub})
			pos = np
		case c == '[':
			sub, np, err := r3tokenize(s, pos+1, ']')
			if err != nil {
				return nil, 0, err
			}
			toks = append(toks, r3tok{kind: 'x', sub: sub})
			pos = np
		case isDigit(c) || (c == '.' && pos+1 < len(s) && isDigit(s[pos+1])):
			j := r3number(s, pos)
			toks = append(toks, r3tok{kind: 'n', text: s[pos:j]})
			pos = j
		case c == '-' && pos+1 < len(s) && (isDigit(s[pos+1]) || (s[pos+1] == '.' && pos+2 < len(s) && isDigit(s[pos+2]))) && canStartSignedAfter(prevByte(s, pos)):
			j := r3number(s, pos+1)
			toks = append(toks, r3tok{kind: 'n', text: s[pos:j]})
			pos = j
		case c == '.' && pos > 0 && (s[pos-1] == ']' || s[pos-1] == ')') && pos+1 < len(s) && isIdent(s[pos+1]) && !isDigit(s[pos+1]):
			// .field directly after an index or a call: a selector (binding power 80)
			j := pos + 1
			for j < len(s) && isIdent(s[j]) && s[j] != '.' {
				j++
			}
			toks = append(toks, r3tok{kind: 'd', text: s[pos:j]})
			pos = j
		case isIdent(c):
			j := pos
			for j < len(s) && isIdent(s[j]) {
				j++
			}
			w := s[pos:j]
			switch w {
			case "and", "or", "not", "mod":
				toks = append(toks, r3tok{kind: 'o', text: w})
			default:
				toks = append(toks, r3tok{kind: 'i', text: w})
			}
			pos = j
		default:
			matched := false
			for _, op := range r3ops {
				if strings.HasPrefix(s[pos:], op) {
					toks = append(toks, r3tok{kind: 'o', text: op})
					pos += len(op)
					matched = true
					break
				}
			}
			if !matched {
				return nil, 0, fmt.Errorf("unexpected character %q", c)
			}
		}
	}
	if stop != 0 {
		return nil, 0, fmt.Errorf("missing %c", stop)
	}
	return toks, pos, nil
}

func prevByte(s string, pos int) byte {
	if pos == 0 {
		return 0
	}
	return s[pos-1]
}

func r3number(s string, pos int) int {
	j := pos
	if j+2 < len(s) && s[j] == '0' && (s[j+1] == 'x' || s[j+1] == 'X') && isHexDigit(s[j+2]) {
		// a hexadecimal literal: its digits include e, which is not an exponent marker here
		j += 2
		for j < len(s) && (isHexDigit(s[j]) || s[j] == '_') {
			j++
		}
		return j
	}
	for j < len(s) && (isDigit(s[j]) || s[j] == '_') {
		j++
	}
	if j < len(s) && s[j] == '.' {
		j++
		for j < len(s) && isDigit(s[j]) {
			j++
		}
	}
	if j < len(s) && (s[j] == 'e' || s[j] == 'E') {
		k := j + 1
		if k < len(s) && (s[k] == '+' || s[k] == '-') {
			k++
		}
		if k < len(s) && isDigit(s[k]) {
			for k < len(s) && isDigit(s[k]) {
				k++
			}
			j = k
		}
	}
	return j
}

type r3parser struct {
	toks []r3tok
	pos  int
}

func (p *r3parser) eof() bool { return p.pos >= len(p.toks) }

var r3bp = map[string]int{"=": 10, ":=": 10, "+=": 10, "-=": 10, "++": 10, "--": 10, ",": 15, "and": 30, "or": 30,
	"==": 40, "!=": 40, "<": 40, "<=": 40, ">": 40, ">=": 40, "+": 50, "-": 50, "*": 60, "/": 60, "mod": 60, "**": 65}

func (p *r3parser) lbp() int {
	t := p.toks[p.pos]
	switch t.kind {
	case 'o':
		return r3bp[t.text] // ';' ':' and 'not' have none: 0
	case 'x', 'd':
		return 80
	}
	return 0
}

func renderNum(t string) string {
	clean := strings.ReplaceAll(t, "_", "")
	isHex := len(clean) > 2 && clean[0] == '0' && (clean[1] == 'x' || clean[1] == 'X')
	if !isHex && strings.ContainsAny(clean, ".eE") {
		f, err := strconv.ParseFloat(clean, 64)
		if err != nil {
			return t
		}
		if strings.ContainsAny(clean, "eE") {
			return strconv.FormatFloat(f, 'e', -1, 64)
		}
		return strconv.FormatFloat(f, 'f', -1, 64)
	}
	if len(clean) > 2 && clean[0] == '0' && (clean[1] == 'x' || clean[1] == 'X') {
		if v, err := strconv.ParseInt(clean[2:], 16, 64); err == nil {
			return strconv.FormatInt(v, 10)
		}
		return t
	}
	if v, err := strconv.ParseInt(clean, 10, 64); err == nil {
		return strconv.FormatInt(v, 10)
	}
	return t
}

func rawTokens(ts []r3tok) string {
	var parts []string
	for _, t := range ts {
		switch t.kind {
		case 'n':
			parts = append(parts, renderNum(t.text))
		case 'b':
			parts = append(parts, "(infix ["+rawTokens(t.sub)+"])")
		case 'x':
			parts = append(parts, "["+rawTokens(t.sub)+"]")
		default:
			parts = append(parts, t.text)
		}
	}
	return strings.Join(parts, " ")
}

func (p *r3parser) expr(rbp int) (string, error) {
	if p.eof() {
		return "", fmt.Errorf("unexpected end")
	}
	t := p.toks[p.pos]
	p.pos++
	var left string
	switch t.kind {
	case 'n':
		left = renderNum(t.text)
	case 'i', 's':
		left = t.text
	case 'b':
		if len(t.sub) == 0 {
			left = "(infix)"
		} else {
			left = "(infix [" + rawTokens(t.sub) + "])"
		}
	case 'o':
		if t.text != "not" {
			return "", fmt.Errorf("operator %s in operand position", t.text)
		}
		r, err := p.expr(70)
		if err != nil {
			return "", err
		}
		left = "(not " + r + ")"
	default:
		return "", fmt.Errorf("token kind %c in operand position", t.kind)
	}
	for !p.eof() {
		l := p.lbp()
		if rbp >= l {
			break
		}
		op := p.toks[p.pos]
		p.pos++
		if op.kind == 'd' {
			left = "(hashidx " + left + " " + op.text + ")"
			continue
		}
		if op.kind == 'x' {
			sel, err := r3selector(op.sub)
			if err != nil {
				return "", err
			}
			left = "(arrayidx " + left + " " + sel + ")"
			continue
		}
		switch op.text {
		case "++", "--":
			left = "(" + op.text + " " + left + ")"
			continue
		}
		rb := l
		name := op.text
		switch op.text {
		case "=", ":=":
			rb = l - 1
			name = "set"
		case "+=", "-=", "and", "or", "**":
			rb = l - 1
		case ",":
			name = "comma"
		}
		r, err := p.expr(rb)
		if err != nil {
			return "", err
		}
		left = "(" + name + " " + left + " " + r + ")"
	}
	return left, nil
}

func r3selector(sub []r3tok) (string, error) {
	colon := -1
	for i, t := range sub {
		if t.kind == 'o' && t.text == ":" {
			colon = i
		}
	}
	one := func(ts []r3tok) (string, error) {
		q := &r3parser{toks: ts}
		e, err := q.expr(0)
		if err != nil {
			return "", err
		}
		if !q.eof() {
			return "", fmt.Errorf("selector with several expressions")
		}
		return e, nil
	}
	if colon >= 0 {
		var parts []string
		if colon > 0 {
			e, err := one(sub[:colon])
			if err != nil {
				return "", err
			}
			parts = append(parts, e)
		}
		parts = append(parts, ":")
		if colon+1 < len(sub) {
			e, err := one(sub[colon+1:])
			if err != nil {
				return "", err
			}
			parts = append(parts, e)
		}
		return "[" + strings.Join(parts, " ") + "]", nil
	}
	if len(sub) == 0 {
		return "[]", nil
	}
	e, err := one(sub)
	if err != nil {
		return "", err
	}
	return "[" + e + "]", nil
}

// R3Expand parses the text of an infix block (without the outer braces) and
// returns the statements as prefix forms.
func R3Expand(text string) ([]string, error) {
	toks, _, err := r3tokenize(text, 0, 0)
	if err != nil {
		return nil, err
	}
	p := &r3parser{toks: toks}
	var stmts []string
	for !p.eof() {
		if t := p.toks[p.pos]; t.kind == 'o' && t.text == ";" {
			p.pos++
			continue
		}
		e, err := p.expr(0)
		if err != nil {
			return nil, err
		}
		stmts = append(stmts, e)
	}
	return stmts, nil
}
