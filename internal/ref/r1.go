package ref

import (
	"fmt"
	"strconv"
	"strings"
)

// R1 — a direct reference evaluator of the core language: textbook lexical
// scoping (scope = map + parent pointer), no tail-call optimisation, lazy
// parameters as memoised thunks over the caller's scope.

type V interface{}

type (
	VInt   int64
	VFloat float64
	VStr   string
	VBool  bool
	VNil   struct{}
	VSym   string
	VList  []V // non-empty proper list; the empty list is VNil
	VArr   struct{ E []V }
	VHash  struct {
		K []V
		V []V
	}
	VClos struct {
		Name     string
		Params   []string
		Lazy     []bool
		Variadic bool
		Rest     string
		Body     []*T
		Env      *Scope
	}
	VBuiltin string
	VLazy    struct {
		Expr   *T
		Env    *Scope
		Forced bool
		Val    V
		IsVal  bool // wraps an already evaluated value (apply/map route)
	}
)

type Scope struct {
	Vars   map[string]V
	Parent *Scope
}

func NewScope(parent *Scope) *Scope { return &Scope{Vars: map[string]V{}, Parent: parent} }

func (s *Scope) lookup(name string) (*Scope, V, bool) {
	for sc := s; sc != nil; sc = sc.Parent {
		if v, ok := sc.Vars[name]; ok {
			return sc, v, true
		}
	}
	return nil, nil, false
}

// RErr is an evaluation error; only the class (and for host-raised errors
// the message) is ever compared with the implementation.
type RErr struct {
	Class string // unbound, arity, type, index, user, notfn, other
	Msg   string
}

func (e *RErr) Error() string { return e.Class + ": " + e.Msg }

type ctl struct {
	kind  byte // 'e' error, 'b' break, 'c' continue
	label string
	err   *RErr
}

// Unmodelled is raised (as a panic) when a program leaves the fragment R1
// models; the case is then skipped, never judged.
type Unmodelled struct{ Why string }

type Host func(r *R1, args []V) (V, *RErr)

type R1 struct {
	Global *Scope
	Trace  []string
	Fuel   int
	Hosts  map[string]Host
	// fault injection for host function h
	HCalls          int
	FailAt          int // 0 = never
	Depth           int
	MaxDepth        int
	running         []string // names of the closures being executed
	AllowSelfShadow bool
}

func NewR1() *R1 {
	r := &R1{Global: NewScope(nil), Fuel: 200000, MaxDepth: 400, Hosts: map[string]Host{}}
	for _, b := range []string{"+", "-", "*", "/", "mod", "<", ">", "<=", ">=", "==", "!=", "not", "concat", "array", "aget", "aset", "list",
		"first", "rest", "second", "cons", "len", "append", "hash", "hget", "hset", "str", "map", "apply", "force", "substitute"} {
		r.Global.Vars[b] = VBuiltin(b)
	}
	r.Global.Vars["nil"] = VNil{}
	r.Global.Vars["null"] = VNil{}
	// traced host call: (t i) logs i and returns i
	r.Hosts["t"] = func(r *R1, args []V) (V, *RErr) {
		if len(args) != 1 && len(args) != 2 {
			return nil, &RErr{"arity", "t"}
		}
		r.Trace = append(r.Trace, Render(args[0]))
		return args[len(args)-1], nil
	}
	// failing host call: (h i) like t, but the FailAt-th call fails
	r.Hosts["h"] = func(r *R1, args []V) (V, *RErr) {
		if len(args) != 1 && len(args) != 2 {
			return nil, &RErr{"arity", "h"}
		}
		r.HCalls++
		if r.FailAt != 0 && r.HCalls == r.FailAt {
			r.Trace = append(r.Trace, "FAIL@"+Render(args[0]))
			return nil, &RErr{"user", "INJECTED"}
		}
		r.Trace = append(r.Trace, Render(args[0]))
		return args[len(args)-1], nil
	}
	// (fail "msg") always raises a host error
	r.Hosts["fail"] = func(r *R1, args []V) (V, *RErr) {
		return nil, &RErr{"user", "INJECTED"}
	}
	for name := range r.Hosts {
		r.Global.Vars[name] = VBuiltin("host:" + name)
	}
	return r
}

var specialForms = map[string]bool{"quote": true, "def": true, "set": true, "fn": true, "defn": true, "begin": true, "let": true,
	"letseq": true, "newScope": true, "cond": true, "and": true, "or": true, "for": true, "break": true, "continue": true, "assert": true, "syntaxQuote": true}

// reserved words that def/set/defn refuse (subset relevant to generators)
var builtinNames = map[string]bool{}

func init() {
	for _, b := range []string{"+", "-", "*", "/", "mod", "<", ">", "<=", ">=", "==", "!=", "not", "concat", "array", "aget", "aset", "list",
		"first", "rest", "second", "cons", "len", "append", "hash", "hget", "hset", "str", "map", "apply", "force", "substitute", "nil", "null"} {
		builtinNames[b] = true
	}
}

// Outcome of a whole program.
type Outcome struct {
	Val   string // rendering, when OK
	Err   *RErr
	Trace []string
}

// RunProgram evaluates the forms in order in the global scope (like one
// EvalString call) and returns the last value.
func (r *R1) RunProgram(forms []*T) (out Outcome, unmodelled string) {
	defer func() {
		if x := recover(); x != nil {
			if u, ok := x.(Unmodelled); ok {
				unmodelled = u.Why
				return
			}
			panic(x)
		}
	}()
	var last V = VNil{}
	for _, f := range forms {
		v, c := r.eval(f, r.Global)
		if c != nil {
			if c.kind == 'e' {
				return Outcome{Err: c.err, Trace: r.Trace}, ""
			}
			panic(Unmodelled{"break/continue outside a loop"})
		}
		last = v
	}
	return Outcome{Val: Render(last), Trace: r.Trace}, ""
}

func errc(class, msg string) *ctl { return &ctl{kind: 'e', err: &RErr{class, msg}} }

func truthy(v V) bool {
	switch x := v.(type) {
	case VBool:
		return bool(x)
	case VInt:
		return x != 0
	case VNil:
		return false
	}
	return true
}

func (r *R1) eval(t *T, sc *Scope) (V, *ctl) {
	r.Fuel--
	if r.Fuel < 0 {
		panic(Unmodelled{"fuel"})
	}
	switch t.K {
	case 'i':
		return VInt(t.I), nil
	case 's':
		return VStr(t.S), nil
	case 'q':
		return VSym(t.S), nil
	case 'y':
		switch t.S {
		case "true":
			return VBool(true), nil
		case "false":
			return VBool(false), nil
		}
		if _, v, ok := sc.lookup(t.S); ok {
			return v, nil
		}
		return nil, errc("unbound", t.S)
	case 'a':
		arr := &VArr{}
		for _, x := range t.L {
			v, c := r.eval(x, sc)
			if c != nil {
				return nil, c
			}
			arr.E = append(arr.E, v)
		}
		return arr, nil
	case 'l':
		if len(t.L) == 0 {
			return VNil{}, nil
		}
		return r.evalList(t, sc)
	}
	panic(Unmodelled{"node kind " + string(t.K)})
}

func (r *R1) evalBody(body []*T, sc *Scope) (V, *ctl) {
	var last V = VNil{}
	for _, f := range body {
		v, c := r.eval(f, sc)
		if c != nil {
			return nil, c
		}
		last = v
	}
	return last, nil
}

func typeTag(v V) string {
	switch v.(type) {
	case VInt:
		return "int"
	case VFloat:
		return "float"
	case VStr:
		return "str"
	case VBool:
		return "bool"
	case VNil:
		return "nil"
	case VSym:
		return "sym"
	case VList:
		return "list"
	case *VArr:
		return "arr"
	case *VHash:
		return "hash"
	case *VClos, VBuiltin:
		return "fn"
	}
	return "?"
}

// noSelfShadow: re-binding, inside a running function, the name that
// function was defined under is excluded from the modelled fragment (the
// implementation recognises tail self-calls by name: KNOWN_FINDINGS C02/C09).
func (r *R1) noSelfShadow(name string) {
	if r.AllowSelfShadow {
		return
	}
	for _, n := range r.running {
		if n == name {
			panic(Unmodelled{"shadowing the running function's own name"})
		}
	}
}

// bind implements def: bind in the innermost scope. Re-binding a name that is
// already bound in that scope is only modelled when the kinds agree and are
// scalar (the implementation applies a type rule there).
func bind(sc *Scope, name string, v V) {
	if old, ok := sc.Vars[name]; ok {
		a, b := typeTag(old), typeTag(v)
		if a != b || (a != "int" && a != "str" && a != "bool" && a != "fn") {
			panic(Unmodelled{"re-def of " + name + " with kinds " + a + "/" + b})
		}
	}
	sc.Vars[name] = v
}

func (r *R1) evalList(t *T, sc *Scope) (V, *ctl) {
	head := t.L[0]
	args := t.L[1:]
	if head.K == 'y' && specialForms[head.S] {
		// a local binding may not shadow a special form (generators never do that)
		return r.evalSpecial(head.S, args, sc)
	}
	// callee first
	var fv V
	if head.K == 'y' {
		_, v, ok := sc.lookup(head.S)
		if !ok {
			return nil, errc("unbound", head.S)
		}
		fv = v
	} else {
		v, c := r.eval(head, sc)
		if c != nil {
			return nil, c
		}
		fv = v
	}
	switch f := fv.(type) {
	case *VClos:
		vals := make([]V, 0, len(args))
		for i, a := range args {
			if f.isLazy(i) {
				vals = append(vals, &VLazy{Expr: a, Env: sc})
				continue
			}
			v, c := r.eval(a, sc)
			if c != nil {
				if c.kind != 'e' {
					panic(Unmodelled{"break/continue inside a call argument"})
				}
				return nil, c
			}
			vals = append(vals, v)
		}
		return r.applyClos(f, vals)
	case VBuiltin:
		vals := make([]V, 0, len(args))
		for _, a := range args {
			v, c := r.eval(a, sc)
			if c != nil {
				if c.kind != 'e' {
					panic(Unmodelled{"break/continue inside a call argument"})
				}
				return nil, c
			}
			vals = append(vals, v)
		}
		return r.applyBuiltin(string(f), vals)
	}
	if len(args) == 0 {
		return fv, nil
	}
	return nil, errc("notfn", "not a function")
}

func (f *VClos) isLazy(i int) bool {
	if i < len(f.Lazy) {
		return f.Lazy[i]
	}
	return false
}

func (r *R1) applyClos(f *VClos, vals []V) (V, *ctl) {
	r.Depth++
	defer func() { r.Depth-- }()
	if r.Depth > r.MaxDepth {
		panic(Unmodelled{"recursion depth"})
	}
	n := len(f.Params)
	if f.Variadic {
		if len(vals) < n {
			return nil, errc("arity", f.Name)
		}
	} else if len(vals) != n {
		return nil, errc("arity", f.Name)
	}
	r.running = append(r.running, f.Name)
	defer func() { r.running = r.running[:len(r.running)-1] }()
	fs := NewScope(f.Env)
	for i, p := range f.Params {
		fs.Vars[p] = vals[i]
	}
	if f.Variadic {
		if len(vals) > n {
			fs.Vars[f.Rest] = VList(append([]V(nil), vals[n:]...))
		} else {
			fs.Vars[f.Rest] = VNil{}
		}
	}
	v, c := r.evalBody(f.Body, fs)
	if c != nil && c.kind != 'e' {
		panic(Unmodelled{"break/continue crossing a function boundary"})
	}
	return v, c
}

// apply a function value to already evaluated arguments (map/apply route):
// lazy positions receive value thunks.
func (r *R1) applyValue(fv V, vals []V) (V, *ctl) {
	switch f := fv.(type) {
	case *VClos:
		vv := make([]V, len(vals))
		for i, v := range vals {
			if f.isLazy(i) {
				vv[i] = &VLazy{IsVal: true, Forced: true, Val: v}
			} else {
				vv[i] = v
			}
		}
		return r.applyClos(f, vv)
	case VBuiltin:
		return r.applyBuiltin(string(f), vals)
	}
	return nil, errc("notfn", "not a function")
}

func parseParams(arr *T) (params []string, lazy []bool, variadic bool, rest string, ok bool) {
	if arr.K != 'a' {
		return nil, nil, false, "", false
	}
	names := []string{}
	for _, p := range arr.L {
		if p.K != 'y' {
			return nil, nil, false, "", false
		}
		names = append(names, p.S)
	}
	if len(names) >= 2 && names[len(names)-2] == "&" {
		rest = names[len(names)-1]
		names = names[:len(names)-2]
		variadic = true
	}
	for _, n := range names {
		params = append(params, n)
		lazy = append(lazy, strings.HasPrefix(n, "#"))
	}
	// a variadic tail is never lazy, whatever its name looks like: its arguments are evaluated before the call and
	// the list is bound to the name as written (including a leading '#')
	return params, lazy, variadic, rest, true
}

func (r *R1) evalSpecial(name string, args []*T, sc *Scope) (V, *ctl) {
	switch name {
	case "quote":
		if len(args) != 1 {
			panic(Unmodelled{"quote arity"})
		}
		return quoteVal(args[0]), nil
	case "def", "set":
		if len(args) != 2 || args[0].K != 'y' {
			panic(Unmodelled{name + " shape"})
		}
		nm := args[0].S
		if builtinNames[nm] || specialForms[nm] {
			panic(Unmodelled{name + " of builtin"})
		}
		v, c := r.eval(args[1], sc)
		if c != nil {
			return nil, c
		}
		r.noSelfShadow(nm)
		if name == "def" {
			bind(sc, nm, v)
			return v, nil
		}
		if owner, _, ok := sc.lookup(nm); ok {
			owner.Vars[nm] = v
		} else {
			sc.Vars[nm] = v
		}
		return v, nil
	case "fn":
		if len(args) < 2 {
			panic(Unmodelled{"fn shape"})
		}
		p, lz, va, rest, ok := parseParams(args[0])
		if !ok {
			panic(Unmodelled{"fn params"})
		}
		return &VClos{Name: "anon", Params: p, Lazy: lz, Variadic: va, Rest: rest, Body: args[1:], Env: sc}, nil
	case "defn":
		if len(args) < 3 || args[0].K != 'y' {
			panic(Unmodelled{"defn shape"})
		}
		p, lz, va, rest, ok := parseParams(args[1])
		if !ok {
			panic(Unmodelled{"defn params"})
		}
		r.noSelfShadow(args[0].S)
		cl := &VClos{Name: args[0].S, Params: p, Lazy: lz, Variadic: va, Rest: rest, Body: args[2:], Env: sc}
		bind(sc, args[0].S, cl)
		return VNil{}, nil
	case "begin":
		if len(args) == 0 {
			panic(Unmodelled{"empty begin"})
		}
		return r.evalBody(args, sc)
	case "newScope":
		if len(args) == 0 {
			panic(Unmodelled{"empty newScope"})
		}
		return r.evalBody(args, NewScope(sc))
	case "let", "letseq":
		if len(args) < 2 || args[0].K != 'a' || len(args[0].L)%2 != 0 {
			panic(Unmodelled{"let shape"})
		}
		ns := NewScope(sc)
		b := args[0].L
		if name == "letseq" {
			for i := 0; i < len(b); i += 2 {
				if b[i].K != 'y' {
					panic(Unmodelled{"let target"})
				}
				v, c := r.eval(b[i+1], ns)
				if c != nil {
					return nil, c
				}
				r.noSelfShadow(b[i].S)
				bind(ns, b[i].S, v)
			}
		} else {
			var vals []V
			for i := 0; i < len(b); i += 2 {
				if b[i].K != 'y' {
					panic(Unmodelled{"let target"})
				}
				v, c := r.eval(b[i+1], ns)
				if c != nil {
					return nil, c
				}
				vals = append(vals, v)
			}
			// the implementation binds from the last to the first
			for i := len(vals) - 1; i >= 0; i-- {
				r.noSelfShadow(b[2*i].S)
				bind(ns, b[2*i].S, vals[i])
			}
		}
		return r.evalBody(args[1:], ns)
	case "cond":
		if len(args)%2 == 0 {
			panic(Unmodelled{"cond without default"})
		}
		for i := 0; i+1 < len(args); i += 2 {
			p, c := r.eval(args[i], sc)
			if c != nil {
				return nil, c
			}
			if truthy(p) {
				return r.eval(args[i+1], sc)
			}
		}
		return r.eval(args[len(args)-1], sc)
	case "and", "or":
		if len(args) == 0 {
			panic(Unmodelled{"empty and/or"})
		}
		var last V
		for _, a := range args {
			v, c := r.eval(a, sc)
			if c != nil {
				return nil, c
			}
			last = v
			if truthy(v) == (name == "or") {
				return v, nil
			}
		}
		return last, nil
	case "syntaxQuote":
		if len(args) != 1 {
			panic(Unmodelled{"syntaxQuote arity"})
		}
		return r.template(args[0], sc)
	case "assert":
		if len(args) != 1 {
			panic(Unmodelled{"assert arity"})
		}
		v, c := r.eval(args[0], sc)
		if c != nil {
			return nil, c
		}
		if !truthy(v) {
			return nil, errc("assert", "assertion failed")
		}
		return VNil{}, nil
	case "break", "continue":
		k := byte('b')
		if name == "continue" {
			k = 'c'
		}
		lab := ""
		if len(args) == 1 {
			if args[0].K != 'q' && args[0].K != 'y' {
				panic(Unmodelled{"label shape"})
			}
			lab = args[0].S
		} else if len(args) > 1 {
			panic(Unmodelled{"break arity"})
		}
		return nil, &ctl{kind: k, label: lab}
	case "for":
		return r.evalFor(args, sc)
	}
	panic(Unmodelled{"special form " + name})
}

func (r *R1) evalFor(args []*T, sc *Scope) (V, *ctl) {
	label := ""
	if len(args) >= 1 && (args[0].K == 'q' || args[0].K == 'y') {
		label = args[0].S
		args = args[1:]
	}
	if len(args) < 1 || args[0].K != 'a' || len(args[0].L) != 3 {
		panic(Unmodelled{"for shape"})
	}
	ctlv := args[0].L
	body := args[1:]
	ls := NewScope(sc)
	if _, c := r.eval(ctlv[0], ls); c != nil {
		if c.kind != 'e' {
			panic(Unmodelled{"break in for header"})
		}
		return nil, c
	}
	for {
		tv, c := r.eval(ctlv[1], ls)
		if c != nil {
			if c.kind != 'e' {
				panic(Unmodelled{"break in for header"})
			}
			return nil, c
		}
		if !truthy(tv) {
			break
		}
		_, c = r.evalBody(body, ls)
		if c != nil {
			switch c.kind {
			case 'e':
				return nil, c
			case 'b':
				if c.label == "" || c.label == label {
					return VNil{}, nil
				}
				return nil, c
			case 'c':
				if c.label != "" && c.label != label {
					return nil, c
				}
			}
		}
		if _, c := r.eval(ctlv[2], ls); c != nil {
			if c.kind != 'e' {
				panic(Unmodelled{"break in for header"})
			}
			return nil, c
		}
	}
	return VNil{}, nil
}

func quoteVal(t *T) V {
	switch t.K {
	case 'i':
		return VInt(t.I)
	case 's':
		return VStr(t.S)
	case 'y', 'q':
		return VSym(t.S)
	case 'l':
		if len(t.L) == 0 {
			return VNil{}
		}
		var l VList
		for _, x := range t.L {
			l = append(l, quoteVal(x))
		}
		return l
	case 'a':
		a := &VArr{}
		for _, x := range t.L {
			a.E = append(a.E, quoteVal(x))
		}
		return a
	}
	panic(Unmodelled{"quote of kind " + string(t.K)})
}

// Render prints a value the way the implementation's printer does (for the
// value kinds R1 models); closures print as <fn>.
func Render(v V) string {
	switch x := v.(type) {
	case VInt:
		return strconv.FormatInt(int64(x), 10)
	case VFloat:
		return strconv.FormatFloat(float64(x), 'f', -1, 64)
	case VStr:
		return strconv.Quote(string(x))
	case VBool:
		return strconv.FormatBool(bool(x))
	case VNil:
		return "nil"
	case VSym:
		return string(x)
	case VList:
		parts := make([]string, len(x))
		for i, e := range x {
			parts[i] = Render(e)
		}
		return "(" + strings.Join(parts, " ") + ")"
	case *VArr:
		parts := make([]string, len(x.E))
		for i, e := range x.E {
			parts[i] = Render(e)
		}
		return "[" + strings.Join(parts, " ") + "]"
	case *VHash:
		parts := make([]string, len(x.K))
		for i := range x.K {
			k := Render(x.K[i])
			parts[i] = k + ":" + Render(x.V[i])
		}
		return "{" + strings.Join(parts, " ") + "}"
	case *VClos, VBuiltin:
		return "<fn>"
	case *VLazy:
		return "<lazy>"
	}
	return fmt.Sprintf("<?%T>", v)
}

func equalV(a, b V) (eq bool, comparable bool) {
	switch x := a.(type) {
	case VInt:
		switch y := b.(type) {
		case VInt:
			return x == y, true
		case VFloat:
			return float64(x) == float64(y), true
		}
	case VFloat:
		switch y := b.(type) {
		case VInt:
			return float64(x) == float64(y), true
		case VFloat:
			return x == y, true
		}
	case VStr:
		if y, ok := b.(VStr); ok {
			return x == y, true
		}
	case VBool:
		if y, ok := b.(VBool); ok {
			return x == y, true
		}
	case VSym:
		if y, ok := b.(VSym); ok {
			return x == y, true
		}
	}
	return false, false
}

func (r *R1) applyBuiltin(name string, a []V) (V, *ctl) {
	if strings.HasPrefix(name, "host:") {
		v, e := r.Hosts[name[5:]](r, a)
		if e != nil {
			return nil, &ctl{kind: 'e', err: e}
		}
		return v, nil
	}
	ints := func() ([]int64, bool) {
		out := make([]int64, len(a))
		for i, v := range a {
			x, ok := v.(VInt)
			if !ok {
				return nil, false
			}
			out[i] = int64(x)
		}
		return out, true
	}
	switch name {
	case "+", "-", "*":
		if len(a) < 1 {
			return nil, errc("arity", name)
		}
		xs, ok := ints()
		if !ok {
			for _, v := range a {
				switch v.(type) {
				case VInt:
				case VFloat:
					panic(Unmodelled{"float arithmetic"})
				default:
					return nil, errc("type", name)
				}
			}
		}
		if !ok {
			return nil, errc("type", name)
		}
		acc := xs[0]
		for _, x := range xs[1:] {
			switch name {
			case "+":
				acc += x
			case "-":
				acc -= x
			case "*":
				acc *= x
			}
		}
		return VInt(acc), nil
	case "/":
		if len(a) != 2 {
			panic(Unmodelled{"/ arity"})
		}
		xs, ok := ints()
		if !ok {
			panic(Unmodelled{"/ on non-ints"})
		}
		if xs[1] == 0 {
			return nil, errc("other", "division by zero")
		}
		if xs[0]%xs[1] == 0 {
			return VInt(xs[0] / xs[1]), nil
		}
		return VFloat(float64(xs[0]) / float64(xs[1])), nil
	case "mod":
		if len(a) != 2 {
			return nil, errc("arity", name)
		}
		xs, ok := ints()
		if !ok {
			return nil, errc("type", name)
		}
		if xs[1] == 0 {
			return nil, errc("other", "division by zero")
		}
		return VInt(xs[0] % xs[1]), nil
	case "<", ">", "<=", ">=", "==", "!=":
		if len(a) != 2 {
			return nil, errc("arity", name)
		}
		if name == "==" || name == "!=" {
			eq, ok := equalV(a[0], a[1])
			if !ok {
				panic(Unmodelled{"equality of " + typeTag(a[0]) + "/" + typeTag(a[1])})
			}
			return VBool(eq == (name == "==")), nil
		}
		xs, ok := ints()
		if !ok {
			panic(Unmodelled{"ordering of non-ints"})
		}
		var res bool
		switch name {
		case "<":
			res = xs[0] < xs[1]
		case ">":
			res = xs[0] > xs[1]
		case "<=":
			res = xs[0] <= xs[1]
		case ">=":
			res = xs[0] >= xs[1]
		}
		return VBool(res), nil
	case "not":
		if len(a) != 1 {
			return nil, errc("arity", name)
		}
		return VBool(!truthy(a[0])), nil
	case "array":
		return &VArr{E: append([]V(nil), a...)}, nil
	case "list":
		if len(a) == 0 {
			return VNil{}, nil
		}
		return VList(append([]V(nil), a...)), nil
	case "aget":
		if len(a) != 2 {
			panic(Unmodelled{"aget arity"})
		}
		arr, ok := a[0].(*VArr)
		i, ok2 := a[1].(VInt)
		if !ok || !ok2 {
			panic(Unmodelled{"aget operand kinds"})
		}
		if i < 0 || int(i) >= len(arr.E) {
			return nil, errc("index", name)
		}
		return arr.E[i], nil
	case "aset":
		if len(a) != 3 {
			return nil, errc("arity", name)
		}
		arr, ok := a[0].(*VArr)
		i, ok2 := a[1].(VInt)
		if !ok || !ok2 {
			panic(Unmodelled{"aset operand kinds"})
		}
		if i < 0 || int(i) >= len(arr.E) {
			return nil, errc("index", name)
		}
		noContainer(a[2])
		arr.E[i] = a[2]
		return VNil{}, nil
	case "first", "second":
		if len(a) != 1 {
			return nil, errc("arity", name)
		}
		idx := 0
		if name == "second" {
			idx = 1
		}
		switch x := a[0].(type) {
		case VList:
			if idx < len(x) {
				return x[idx], nil
			}
			return nil, errc("index", name)
		case *VArr:
			if idx < len(x.E) {
				return x.E[idx], nil
			}
			return nil, errc("index", name)
		}
		panic(Unmodelled{"first/second operand kind"})
	case "rest":
		if len(a) != 1 {
			return nil, errc("arity", name)
		}
		switch x := a[0].(type) {
		case VList:
			if len(x) <= 1 {
				return VNil{}, nil
			}
			return VList(append([]V(nil), x[1:]...)), nil
		case *VArr:
			if len(x.E) == 0 {
				panic(Unmodelled{"rest of empty array"})
			}
			return &VArr{E: append([]V(nil), x.E[1:]...)}, nil
		case VNil:
			return VNil{}, nil
		}
		panic(Unmodelled{"rest operand kind"})
	case "cons":
		if len(a) != 2 {
			return nil, errc("arity", name)
		}
		switch x := a[1].(type) {
		case VList:
			return VList(append([]V{a[0]}, x...)), nil
		case VNil:
			return VList{a[0]}, nil
		}
		panic(Unmodelled{"cons onto a non-list"})
	case "len":
		if len(a) != 1 {
			return nil, errc("arity", name)
		}
		switch x := a[0].(type) {
		case VList:
			return VInt(len(x)), nil
		case *VArr:
			return VInt(len(x.E)), nil
		case VStr:
			return VInt(len(x)), nil
		case VNil:
			return VInt(0), nil
		case *VHash:
			return VInt(len(x.K)), nil
		}
		panic(Unmodelled{"len operand kind"})
	case "append":
		if len(a) != 2 {
			return nil, errc("arity", name)
		}
		switch x := a[0].(type) {
		case *VArr:
			return &VArr{E: append(append([]V(nil), x.E...), a[1])}, nil
		}
		panic(Unmodelled{"append to non-array"})
	case "concat":
		if len(a) != 2 {
			panic(Unmodelled{"concat arity"})
		}
		switch x := a[0].(type) {
		case VStr:
			if y, ok := a[1].(VStr); ok {
				return x + y, nil
			}
		case *VArr:
			if y, ok := a[1].(*VArr); ok {
				return &VArr{E: append(append([]V(nil), x.E...), y.E...)}, nil
			}
		case VList:
			if y, ok := a[1].(VList); ok {
				return VList(append(append([]V(nil), x...), y...)), nil
			}
		}
		panic(Unmodelled{"concat kinds"})
	case "str":
		if len(a) != 1 {
			panic(Unmodelled{"str arity"})
		}
		return VStr(Render(a[0])), nil
	case "hash":
		if len(a)%2 != 0 {
			return nil, errc("arity", name)
		}
		h := &VHash{}
		for i := 0; i < len(a); i += 2 {
			if _, ok := a[i].(VSym); !ok {
				panic(Unmodelled{"non-symbol hash key"})
			}
			hashSet(h, a[i], a[i+1])
		}
		return h, nil
	case "hget":
		if len(a) != 2 && len(a) != 3 {
			return nil, errc("arity", name)
		}
		h, ok := a[0].(*VHash)
		if !ok {
			panic(Unmodelled{"hget operand kind"})
		}
		if _, ok := a[1].(VSym); !ok {
			panic(Unmodelled{"non-symbol hash key"})
		}
		for i, k := range h.K {
			if k == a[1] {
				return h.V[i], nil
			}
		}
		if len(a) == 3 {
			return a[2], nil
		}
		return nil, errc("index", "no such key")
	case "hset":
		if len(a) != 3 {
			return nil, errc("arity", name)
		}
		h, ok := a[0].(*VHash)
		if !ok {
			panic(Unmodelled{"hset operand kind"})
		}
		if _, ok := a[1].(VSym); !ok {
			panic(Unmodelled{"non-symbol hash key"})
		}
		noContainer(a[2])
		hashSet(h, a[1], a[2])
		return VNil{}, nil
	case "map":
		if len(a) != 2 {
			return nil, errc("arity", name)
		}
		if _, ok := a[0].(*VClos); !ok {
			if _, isB := a[0].(VBuiltin); isB {
				panic(Unmodelled{"map with a builtin"})
			}
			panic(Unmodelled{"map with a non-function"})
		}
		switch coll := a[1].(type) {
		case *VArr:
			out := &VArr{}
			for _, e := range append([]V(nil), coll.E...) {
				v, c := r.applyValue(a[0], []V{e})
				if c != nil {
					return nil, c
				}
				out.E = append(out.E, v)
			}
			return out, nil
		case VList:
			var out VList
			for _, e := range coll {
				v, c := r.applyValue(a[0], []V{e})
				if c != nil {
					return nil, c
				}
				out = append(out, v)
			}
			return out, nil
		case VNil:
			return nil, errc("type", name) // observed: map over the empty list is an error
		}
		panic(Unmodelled{"map over a non-sequence"})
	case "apply":
		if len(a) != 2 {
			return nil, errc("arity", name)
		}
		var vals []V
		switch coll := a[1].(type) {
		case *VArr:
			vals = append(vals, coll.E...)
		case VList:
			vals = append(vals, coll...)
		case VNil:
		default:
			panic(Unmodelled{"apply to a non-sequence"})
		}
		switch a[0].(type) {
		case *VClos, VBuiltin:
			return r.applyValue(a[0], vals)
		}
		panic(Unmodelled{"apply of a non-function"})
	case "force":
		if len(a) != 1 {
			return nil, errc("arity", name)
		}
		lz, ok := a[0].(*VLazy)
		if !ok {
			return a[0], nil
		}
		if lz.Forced {
			return lz.Val, nil
		}
		v, c := r.eval(lz.Expr, lz.Env)
		if c != nil {
			if c.kind != 'e' {
				panic(Unmodelled{"break inside a forced argument"})
			}
			return nil, c
		}
		lz.Forced = true
		lz.Val = v
		return v, nil
	case "substitute":
		if len(a) != 1 {
			return nil, errc("arity", name)
		}
		lz, ok := a[0].(*VLazy)
		if !ok {
			return a[0], nil
		}
		if lz.IsVal {
			return lz.Val, nil // apply/map route: the thunk wraps the evaluated value
		}
		return quoteVal(lz.Expr), nil
	}
	panic(Unmodelled{"builtin " + name})
}

// storing a mutable container inside another one can create cycles, whose
// printing is outside the modelled fragment
func noContainer(v V) {
	switch v.(type) {
	case *VArr, *VHash:
		panic(Unmodelled{"container stored into a container"})
	}
}

func hashSet(h *VHash, k, v V) {
	for i, kk := range h.K {
		if kk == k {
			h.V[i] = v
			return
		}
	}
	h.K = append(h.K, k)
	h.V = append(h.V, v)
}

// template is R4: exact substitution. The template is returned literally,
// except that (unquote e) is replaced by the value of e and, inside a list or
// array, (unquote-splicing e) by the elements of the list e evaluates to.
func (r *R1) template(t *T, sc *Scope) (V, *ctl) {
	isForm := func(x *T, head string) bool {
		return x.K == 'l' && len(x.L) == 2 && x.L[0].K == 'y' && x.L[0].S == head
	}
	switch t.K {
	case 'l', 'a':
		if t.K == 'l' {
			if len(t.L) == 0 {
				return VNil{}, nil
			}
			if isForm(t, "unquote") {
				return r.eval(t.L[1], sc)
			}
			if isForm(t, "unquote-splicing") {
				panic(Unmodelled{"splice outside a list"})
			}
			// a syntax-quote written inside a template is part of the template: its
			// unquotes are substituted like any other and the form itself stays
		}
		var out []V
		for _, c := range t.L {
			if isForm(c, "unquote-splicing") {
				v, cc := r.eval(c.L[1], sc)
				if cc != nil {
					return nil, cc
				}
				switch l := v.(type) {
				case VList:
					out = append(out, l...)
				case VNil:
				default:
					panic(Unmodelled{"splice of a non-list"})
				}
				continue
			}
			v, cc := r.template(c, sc)
			if cc != nil {
				return nil, cc
			}
			out = append(out, v)
		}
		if t.K == 'a' {
			return &VArr{E: out}, nil
		}
		if len(out) == 0 {
			return VNil{}, nil
		}
		return VList(out), nil
	}
	return quoteVal(t), nil
}
