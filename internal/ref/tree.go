// Package ref holds the reference models. They are deliberately boring and
// share no code with package zygo.
package ref

import (
	"strconv"
	"strings"
)

// T is the harness's own syntax tree: programs are built as trees, rendered
// to source text for the implementation and evaluated directly by R1.
type T struct {
	K byte // 'i' int, 's' string, 'y' symbol, 'q' quoted symbol (written name:), 'l' list, 'a' array, 'f' float text, 'r' raw text (opaque to R1)
	S string
	I int64
	L []*T
}

func Int(i int64) *T   { return &T{K: 'i', I: i} }
func Str(s string) *T  { return &T{K: 's', S: s} }
func Sym(s string) *T  { return &T{K: 'y', S: s} }
func QSym(s string) *T { return &T{K: 'q', S: s} }
func L(xs ...*T) *T    { return &T{K: 'l', L: xs} }
func A(xs ...*T) *T    { return &T{K: 'a', L: xs} }
func Call(h string, xs ...*T) *T {
	return &T{K: 'l', L: append([]*T{Sym(h)}, xs...)}
}

// Sugar makes Text write (syntaxQuote x), (unquote x) and (unquote-splicing x)
// with the reader sugar ^x ~x ~@x.
var Sugar = false

func (t *T) IsSym(s string) bool { return t != nil && t.K == 'y' && t.S == s }

func (t *T) Text() string {
	var sb strings.Builder
	t.write(&sb)
	return sb.String()
}

func (t *T) write(sb *strings.Builder) {
	switch t.K {
	case 'i':
		sb.WriteString(strconv.FormatInt(t.I, 10))
	case 's':
		sb.WriteString(strconv.Quote(t.S))
	case 'y', 'r', 'f':
		sb.WriteString(t.S)
	case 'q':
		sb.WriteString(t.S + ":")
	case 'l', 'a':
		if t.K == 'l' && len(t.L) == 2 && t.L[0].K == 'y' && Sugar {
			// reader sugar (only when requested): ^x ~x ~@x
			pre := ""
			switch t.L[0].S {
			case "syntaxQuote":
				pre = "^"
			case "unquote":
				pre = "~"
			case "unquote-splicing":
				pre = "~@"
			}
			if pre != "" {
				sb.WriteString(pre)
				t.L[1].write(sb)
				return
			}
		}
		if t.K == 'l' {
			sb.WriteByte('(')
		} else {
			sb.WriteByte('[')
		}
		for i, x := range t.L {
			if i > 0 {
				sb.WriteByte(' ')
			}
			x.write(sb)
		}
		if t.K == 'l' {
			sb.WriteByte(')')
		} else {
			sb.WriteByte(']')
		}
	}
}

// Size counts nodes.
func (t *T) Size() int {
	n := 1
	for _, x := range t.L {
		n += x.Size()
	}
	return n
}

// Parse reads back the text produced by Text (used by replay files). It
// understands exactly the subset Text emits.
func Parse(src string) []*T {
	p := &tparser{s: src}
	var out []*T
	for {
		p.ws()
		if p.i >= len(p.s) {
			return out
		}
		out = append(out, p.one())
	}
}

type tparser struct {
	s string
	i int
}

func (p *tparser) ws() {
	for p.i < len(p.s) && (p.s[p.i] == ' ' || p.s[p.i] == '\n' || p.s[p.i] == '\t') {
		p.i++
	}
}

func (p *tparser) one() *T {
	p.ws()
	c := p.s[p.i]
	switch {
	case c == '(' || c == '[':
		close := byte(')')
		k := byte('l')
		if c == '[' {
			close = ']'
			k = 'a'
		}
		p.i++
		t := &T{K: k}
		for {
			p.ws()
			if p.i >= len(p.s) {
				return t
			}
			if p.s[p.i] == close {
				p.i++
				return t
			}
			t.L = append(t.L, p.one())
		}
	case c == '^' || c == '~':
		head := "syntaxQuote"
		p.i++
		if c == '~' {
			head = "unquote"
			if p.i < len(p.s) && p.s[p.i] == '@' {
				head = "unquote-splicing"
				p.i++
			}
		}
		return L(Sym(head), p.one())
	case c == '"':
		j := p.i + 1
		for j < len(p.s) && p.s[j] != '"' {
			if p.s[j] == '\\' {
				j++
			}
			j++
		}
		q := p.s[p.i : j+1]
		p.i = j + 1
		u, err := strconv.Unquote(q)
		if err != nil {
			u = q
		}
		return Str(u)
	}
	j := p.i
	for j < len(p.s) && !strings.ContainsRune(" \n\t()[]", rune(p.s[j])) {
		j++
	}
	tok := p.s[p.i:j]
	p.i = j
	if v, err := strconv.ParseInt(tok, 10, 64); err == nil {
		return Int(v)
	}
	if strings.HasSuffix(tok, ":") && len(tok) > 1 {
		return QSym(tok[:len(tok)-1])
	}
	return Sym(tok)
}
