package props

import (
	"fmt"
	"math"
	"math/big"
	"strconv"
	"strings"

	"github.com/glycerine/zygomys/v9/zygo"

	"verif/internal/engine"
	"verif/internal/zy"
)

// C07 — numbers compare and compute exactly as specified.
// Exhaustive enumeration of all ordered pairs over a boundary grid, all type
// combinations, all operators; oracle R5 computed with math/big and Go
// fixed-width arithmetic.

type num struct {
	kind byte // 'I' int64, 'U' uint64, 'C' char, 'F' float64
	i    int64
	u    uint64
	f    float64
}

func (n num) String() string {
	switch n.kind {
	case 'I':
		return fmt.Sprintf("I%d", n.i)
	case 'U':
		return fmt.Sprintf("U%d", n.u)
	case 'C':
		return fmt.Sprintf("C%d", n.i)
	}
	return "F" + strconv.FormatUint(math.Float64bits(n.f), 16)
}

func parseNum(s string) num {
	switch s[0] {
	case 'I':
		v, _ := strconv.ParseInt(s[1:], 10, 64)
		return num{kind: 'I', i: v}
	case 'U':
		v, _ := strconv.ParseUint(s[1:], 10, 64)
		return num{kind: 'U', u: v}
	case 'C':
		v, _ := strconv.ParseInt(s[1:], 10, 64)
		return num{kind: 'C', i: v}
	}
	b, _ := strconv.ParseUint(s[1:], 16, 64)
	return num{kind: 'F', f: math.Float64frombits(b)}
}

func (n num) sexp() zygo.Sexp {
	switch n.kind {
	case 'I':
		return &zygo.SexpInt{Val: n.i}
	case 'U':
		return &zygo.SexpUint64{Val: n.u}
	case 'C':
		return &zygo.SexpChar{Val: rune(n.i)}
	}
	return &zygo.SexpFloat{Val: n.f}
}

func (n num) isNaN() bool { return n.kind == 'F' && math.IsNaN(n.f) }

// exact value as big.Float (not for NaN/Inf)
func (n num) asFloat64() float64 {
	switch n.kind {
	case 'I', 'C':
		return float64(n.i)
	case 'U':
		return float64(n.u)
	}
	return n.f
}

func (n num) bigInt() *big.Int {
	if n.kind == 'U' {
		return new(big.Int).SetUint64(n.u)
	}
	return big.NewInt(n.i)
}

func c07grid(thorough bool) []num {
	var g []num
	I := func(vs ...int64) {
		for _, v := range vs {
			g = append(g, num{kind: 'I', i: v})
		}
	}
	U := func(vs ...uint64) {
		for _, v := range vs {
			g = append(g, num{kind: 'U', u: v})
		}
	}
	C := func(vs ...int64) {
		for _, v := range vs {
			g = append(g, num{kind: 'C', i: v})
		}
	}
	F := func(vs ...float64) {
		for _, v := range vs {
			g = append(g, num{kind: 'F', f: v})
		}
	}
	const p53 = int64(1) << 53
	I(math.MinInt64, math.MinInt64+1, -p53-1, -p53, -2, -1, 0, 1, 2, 3, 7, p53-1, p53, p53+1, math.MaxInt64-1, math.MaxInt64)
	U(0, 1, 2, 3, uint64(p53)+1, 1<<63-1, 1<<63, 1<<63+1, math.MaxUint64-1, math.MaxUint64)
	C(0, 1, 'a', 0x10FFFF, math.MaxInt32)
	F(math.Copysign(0, -1), 0, 5e-324, -5e-324, 1, -1, 0.5, 2, 3, float64(p53), -float64(p53), float64(p53)+2, 9223372036854775808.0, -9223372036854775808.0,
		18446744073709551616.0, math.MaxFloat64, -math.MaxFloat64, math.Inf(1), math.Inf(-1), math.NaN())
	{
		quickK := map[int]bool{0: true, 1: true, 2: true, 3: true, 7: true, 8: true, 15: true, 16: true, 23: true, 24: true, 30: true, 31: true, 32: true, 33: true, 40: true, 47: true, 48: true, 51: true, 52: true, 53: true, 54: true, 55: true, 56: true, 60: true, 61: true, 62: true, 63: true, 64: true}
		for k := 0; k <= 64; k++ {
			if !thorough && !quickK[k] {
				continue
			}
			if k <= 62 {
				p := int64(1) << uint(k)
				I(p, -p, p+1, p-1, -p+1, -p-1)
			}
			if k <= 63 {
				p := uint64(1) << uint(k)
				U(p, p+1, p-1)
			}
			f := math.Ldexp(1, k)
			F(f, -f, math.Nextafter(f, 0), math.Nextafter(f, math.Inf(1)), -math.Nextafter(f, 0), f+1, f-1)
		}
		for _, k := range []int{-1074, -1073, -1023, -1022, -52, -1, 1023} {
			f := math.Ldexp(1, k)
			F(f, -f, math.Nextafter(f, math.Inf(1)))
		}
		C(2, 0x7f, 0x80, 0xd7ff, 0xe000, 0xffff)
		// dedupe
		seen := map[string]bool{}
		var d []num
		for _, n := range g {
			if !seen[n.String()] {
				seen[n.String()] = true
				d = append(d, n)
			}
		}
		g = d
	}
	return g
}

var c07cmpOps = []string{"<", ">", "<=", ">=", "==", "!="}
var c07arOps = []string{"+", "-", "*", "/", "mod"}

// cmpModel returns -1/0/1, or 2 for unordered (NaN); judged=false when the
// property does not specify the pair.
func c07cmpModel(a, b num) (res int, judged bool) {
	ka, kb := a.kind, b.kind
	switch {
	case ka == kb && ka != 'F':
		return a.bigInt().Cmp(b.bigInt()), true
	case ka == 'F' || kb == 'F':
		if (ka == 'U') || (kb == 'U') {
			return 0, false // uint64 vs float: not specified
		}
		fa, fb := a.asFloat64(), b.asFloat64()
		if math.IsNaN(fa) || math.IsNaN(fb) {
			return 2, true
		}
		switch {
		case fa < fb:
			return -1, true
		case fa > fb:
			return 1, true
		}
		return 0, true
	}
	return 0, false // int/char, int/uint64, char/uint64: not specified
}

type c07val struct {
	kind byte // I U F or 'E' error
	i    int64
	u    uint64
	f    float64
}

func (v c07val) String() string {
	switch v.kind {
	case 'I':
		return fmt.Sprintf("int64 %d", v.i)
	case 'U':
		return fmt.Sprintf("uint64 %d", v.u)
	case 'F':
		return fmt.Sprintf("float64 %v (bits %x)", v.f, math.Float64bits(v.f))
	}
	return "error"
}

func (v c07val) eq(w c07val) bool {
	if v.kind != w.kind {
		return false
	}
	switch v.kind {
	case 'I':
		return v.i == w.i
	case 'U':
		return v.u == w.u
	case 'F':
		if math.IsNaN(v.f) && math.IsNaN(w.f) {
			return true
		}
		return math.Float64bits(v.f) == math.Float64bits(w.f)
	}
	return true
}

func c07arithModel(op string, a, b num) (c07val, bool) {
	ka, kb := a.kind, b.kind
	if ka == 'C' || kb == 'C' {
		if (ka == 'F' || kb == 'F') && op != "mod" {
			return floatOp(op, a.asFloat64(), b.asFloat64()), true
		}
		return c07val{}, false // char with integers: result type not specified
	}
	if ka == 'F' || kb == 'F' {
		if op == "mod" {
			return c07val{}, false
		}
		return floatOp(op, a.asFloat64(), b.asFloat64()), true
	}
	if ka == 'I' && kb == 'I' {
		x, y := a.i, b.i
		switch op {
		case "+":
			return c07val{kind: 'I', i: x + y}, true
		case "-":
			return c07val{kind: 'I', i: x - y}, true
		case "*":
			return c07val{kind: 'I', i: x * y}, true
		case "/":
			if y == 0 {
				return c07val{kind: 'E'}, true
			}
			if new(big.Int).Rem(big.NewInt(x), big.NewInt(y)).Sign() == 0 {
				q := new(big.Int).Quo(big.NewInt(x), big.NewInt(y))
				if !q.IsInt64() { // min / -1 = 2^63 wraps to min, as in Go
					return c07val{kind: 'I', i: math.MinInt64}, true
				}
				return c07val{kind: 'I', i: q.Int64()}, true
			}
			return c07val{kind: 'F', f: float64(x) / float64(y)}, true
		case "mod":
			if y == 0 {
				return c07val{kind: 'E'}, true
			}
			r := new(big.Int).Rem(big.NewInt(x), big.NewInt(y)) // truncated, like Go's %
			return c07val{kind: 'I', i: r.Int64()}, true
		}
	}
	// at least one uint64, no float: both taken modulo 2^64
	var x, y uint64
	if ka == 'U' {
		x = a.u
	} else {
		x = uint64(a.i)
	}
	if kb == 'U' {
		y = b.u
	} else {
		y = uint64(b.i)
	}
	switch op {
	case "+":
		return c07val{kind: 'U', u: x + y}, true
	case "-":
		return c07val{kind: 'U', u: x - y}, true
	case "*":
		return c07val{kind: 'U', u: x * y}, true
	case "/":
		if y == 0 {
			return c07val{kind: 'E'}, true
		}
		if x%y == 0 {
			return c07val{kind: 'U', u: x / y}, true
		}
		return c07val{kind: 'F', f: float64(x) / float64(y)}, true
	case "mod":
		if y == 0 {
			return c07val{kind: 'E'}, true
		}
		return c07val{kind: 'U', u: x % y}, true
	}
	return c07val{}, false
}

func floatOp(op string, x, y float64) c07val {
	switch op {
	case "+":
		return c07val{kind: 'F', f: x + y}
	case "-":
		return c07val{kind: 'F', f: x - y}
	case "*":
		return c07val{kind: 'F', f: x * y}
	}
	return c07val{kind: 'F', f: x / y}
}

func c07case(c *engine.Ctx, env *zygo.Zlisp, a, b num) {
	w := a.String() + " " + b.String()
	c.Begin(w)
	env.AddGlobal("aa", a.sexp())
	env.AddGlobal("bb", b.sexp())
	pair := string(a.kind) + string(b.kind)
	var out strings.Builder
	cm, judged := c07cmpModel(a, b)
	for _, op := range c07cmpOps {
		r := zy.Eval(env, "("+op+" aa bb)")
		out.WriteString(r.Short())
		out.WriteByte('|')
		if r.Panic != "" {
			c.Violation("panic", "C07/panic/"+op+"/"+pair, w, fmt.Sprintf("(%s %s %s): %s", op, a, b, r))
			continue
		}
		if !judged {
			c.Count("unjudged_comparisons", 1)
			continue
		}
		want := false
		switch op {
		case "<":
			want = cm == -1
		case ">":
			want = cm == 1
		case "<=":
			want = cm == -1 || cm == 0
		case ">=":
			want = cm == 1 || cm == 0
		case "==":
			want = cm == 0
		case "!=":
			want = cm != 0
		}
		if r.Short() != strconv.FormatBool(want) {
			c.Violation("compare", "C07/compare/"+op+"/"+pair, w, fmt.Sprintf("(%s %s %s) gave %s, exact order says %v", op, a.sexp().SexpString(nil), b.sexp().SexpString(nil), r, want))
		}
	}
	// one object on both sides (an alias, a parameter used twice): the answer is the same as for two equal objects
	if judged && a.String() == b.String() {
		for _, op := range c07cmpOps {
			want := (cm == 0 && (op == "==" || op == "<=" || op == ">=")) || (cm != 0 && op == "!=")
			for _, src := range []string{"(" + op + " aa aa)", "((fn [p] (" + op + " p p)) aa)", "(let [cc aa] (" + op + " cc aa))"} {
				r := zy.Eval(env, src)
				out.WriteString(r.Short() + "|")
				if r.Short() != strconv.FormatBool(want) {
					c.Violation("compare-same-object", "C07/compare-same-object/"+op+"/"+pair, w, fmt.Sprintf("%s with aa = %s gave %s, exact order says %v", src, a.sexp().SexpString(nil), r, want))
				}
			}
		}
	}
	// the same two numbers inside containers: arrays and lists compare element by element, so a one-element container
	// (and a container whose other elements are equal) orders exactly as its element does; NaN stays unordered
	if judged {
		for _, op := range c07cmpOps {
			scalar := zy.Eval(env, "("+op+" aa bb)").Short()
			for _, src := range []string{"(" + op + " [aa] [bb])", "(" + op + " [7 aa 2] [7 bb 2])", "(" + op + " (list aa) (list bb))", "(" + op + " [[aa]] [[bb]])"} {
				r := zy.Eval(env, src)
				out.WriteString(r.Short() + "|")
				if r.Panic != "" {
					c.Violation("panic", "C07/panic/container/"+op+"/"+pair, w, src+": "+r.Panic)
				} else if r.Short() != scalar {
					c.Violation("compare-in-container", "C07/compare-in-container/"+op+"/"+pair, w, fmt.Sprintf("%s with aa = %s, bb = %s gave %s; (%s aa bb) gives %s", src, a.sexp().SexpString(nil), b.sexp().SexpString(nil), r, op, scalar))
				}
			}
		}
	}
	// hash lookup keyed by the first operand (Compare == 0 decides)
	if a.kind == b.kind && (a.kind == 'I' || a.kind == 'C') {
		zy.Eval(env, "(def hh (hash))")
		zy.Eval(env, "(hset hh aa 1)")
		r := zy.Eval(env, "(hget hh bb 0)")
		want := "0"
		if cm == 0 {
			want = "1"
		}
		out.WriteString(r.Short() + "|")
		if r.Short() != want {
			c.Violation("hashkey", "C07/hashkey/"+pair, w, fmt.Sprintf("hash keyed by %s looked up with %s gave %s, want %s", a, b, r, want))
		}
	}
	for _, op := range c07arOps {
		r := zy.Eval(env, "("+op+" aa bb)")
		out.WriteString(r.Short())
		out.WriteByte('|')
		if r.Panic != "" || r.NilVal {
			c.Violation("panic", "C07/panic/"+op+"/"+pair, w, fmt.Sprintf("(%s %s %s): %s", op, a, b, r))
			continue
		}
		want, judged := c07arithModel(op, a, b)
		if !judged {
			c.Count("unjudged_arithmetic", 1)
			continue
		}
		var got c07val
		if r.Err != "" {
			got = c07val{kind: 'E'}
		} else {
			switch v := r.Sexp.(type) {
			case *zygo.SexpInt:
				got = c07val{kind: 'I', i: v.Val}
			case *zygo.SexpUint64:
				got = c07val{kind: 'U', u: v.Val}
			case *zygo.SexpFloat:
				got = c07val{kind: 'F', f: v.Val}
			default:
				got = c07val{kind: '?'}
			}
		}
		if !got.eq(want) {
			c.Violation("arith", "C07/arith/"+op+"/"+pair, w, fmt.Sprintf("(%s %s %s) gave %s [%s], specified result is %s", op, a, b, r, got, want))
		}
	}
	c.Outcome(out.String())
}

// c07nary: (op a b c) is the left fold ((op (op a b) c)) of the binary operation, for every mix of integer and float
// operands (an integer prefix keeps integer arithmetic: wrap-around, exact division, division by zero is an error)
func c07nary(c *engine.Ctx, env *zygo.Zlisp, only string) {
	const p53 = int64(1) << 53
	ints := []int64{0, 1, -1, 2, 7, p53 + 1, math.MaxInt64, math.MinInt64, math.MaxInt64 - 1}
	floats := []float64{0.5, 2.0, 0.0, -1.5, 1e300}
	var vals []num
	for _, i := range ints {
		vals = append(vals, num{kind: 'I', i: i})
	}
	for _, f := range floats {
		vals = append(vals, num{kind: 'F', f: f})
	}
	for _, op := range []string{"+", "-", "*", "/"} {
		for _, a := range vals {
			for _, b := range vals {
				for _, d := range vals {
					w := "N|" + op + "|" + a.String() + " " + b.String() + " " + d.String()
					if !(only == "" && c.Mine() || only == w) {
						continue
					}
					c.Begin(w)
					env.AddGlobal("aa", a.sexp())
					env.AddGlobal("bb", b.sexp())
					env.AddGlobal("cc", d.sexp())
					flat := zy.Eval(env, "("+op+" aa bb cc)")
					nested := zy.Eval(env, "("+op+" ("+op+" aa bb) cc)")
					if flat.Panic != "" {
						c.Violation("panic", "C07/panic/nary/"+op, w, flat.Panic)
						continue
					}
					fs, ns := flat.Short(), nested.Short()
					if fs != ns {
						c.Violation("nary-fold", "C07/nary-fold/"+op+"/"+string(a.kind)+string(b.kind)+string(d.kind), w, fmt.Sprintf("(%s %s %s %s) gives %s, the left fold (%s (%s a b) c) gives %s", op, a.sexp().SexpString(nil), b.sexp().SexpString(nil), d.sexp().SexpString(nil), flat, op, op, nested))
					}
					// the same call through apply on one argument array, twice: the answer is the same both times and
					// the array still holds the operands
					zy.Eval(env, "(def av [aa bb cc])")
					ap1 := zy.Eval(env, "(apply "+op+" av)")
					ap2 := zy.Eval(env, "(apply "+op+" av)")
					still := zy.Eval(env, "(str av)").Short()
					want := zy.Eval(env, "(str [aa bb cc])").Short()
					if ap1.Short() != fs || ap2.Short() != fs || still != want {
						c.Violation("nary-apply", "C07/nary-apply/"+op, w, fmt.Sprintf("(def av [%s %s %s]): (apply %s av) gives %s, again %s, the direct call gives %s; av is then %s", a.sexp().SexpString(nil), b.sexp().SexpString(nil), d.sexp().SexpString(nil), op, ap1, ap2, flat, still))
					}
					c.Outcome("N|" + op + "|" + fs)
				}
			}
		}
	}
}

func init() {
	engine.Register(&engine.Check{
		ID:    "C07",
		Level: "exploration",
		Rule: "all ordered pairs over a boundary grid of int64/uint64/char/float64 values (bound as Go values with AddGlobal) x 6 comparison operators (for a value against itself also with one object on both sides: alias, parameter used twice), hash lookup, and + - * / mod; three-operand calls (op a b c) over 14 ints/floats in all mixes must equal the left fold of binary calls, also through (apply op av) twice on one argument array (which must be left unchanged); every judged pair again inside one-element and equal-prefix arrays, lists and nested arrays (same verdict as the scalars); " +
			"oracle computed with math/big and Go fixed-width arithmetic; distinct_nontrivial = distinct result vectors of a pair",
		Assumptions: []string{
			"not specified by the property and therefore only checked for 'no panic': int64 vs uint64, int vs char and uint64 vs float comparisons; arithmetic between char and integers; mod with a float operand",
			"mixed int64/uint64 arithmetic is judged modulo 2^64 in uint64",
		},
		Run: func(c *engine.Ctx) {
			g := c07grid(c.Thorough())
			env := zy.New(false)
			defer env.Close()
			c.Note("grid_size", strconv.Itoa(len(g)))
			for _, a := range g {
				for _, b := range g {
					if !c.Mine() {
						continue
					}
					if c.Expired() {
						return
					}
					c07case(c, env, a, b)
				}
			}
			c07nary(c, env, "")
		},
		Replay: func(c *engine.Ctx, w string) {
			env := zy.New(false)
			defer env.Close()
			if strings.HasPrefix(w, "N|") {
				c07nary(c, env, w)
				for i := range c.Viol {
					c.Viol[i].Key = "*"
				}
				return
			}
			f := strings.Fields(w)
			c07case(c, env, parseNum(f[0]), parseNum(f[1]))
		},
	})
}
