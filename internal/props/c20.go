//go:build maporder

package props

import (
	"fmt"
	"os"
	"os/exec"
	"path/filepath"
	"regexp"
	"sort"
	"strings"

	"github.com/glycerine/zygomys/v9/zygo"

	"verif/internal/engine"
)

// C20 — evaluation is deterministic: independent of Go's map iteration order
// (explored through the map-order seam: every `range` over a map in package
// zygo asks the explorer for its order) and of how many interpreters were
// created earlier in the process.

type c20choice struct {
	site string
	n    int
}

type c20out struct {
	val, stdout, err string
	points           []c20choice
}

func (o c20out) obs() string { return "value=" + o.val + "\nstdout=" + o.stdout + "\nerror=" + o.err }

var c20scrub = regexp.MustCompile(`0x[0-9a-f]{6,}|[0-9]{4}-[0-9]{2}-[0-9]{2}[ T][0-9:.]+|m=\+[0-9.]+`)

type c20prog struct {
	name string
	src  string
	demo bool
	// before: programs evaluated, each in an interpreter of its own, between two runs of src in one process: what an
	// earlier interpreter leaves behind in process-wide state must not change what a later one computes
	before []string
}

// c20run creates a fresh interpreter (construction included in the seam) and evaluates src;
// dev maps a choice-point index to the alternative taken there (all others take the sorted order).
func c20run(p c20prog, dev map[int]int) (out c20out) {
	idx := 0
	zygo.VerifMapChooser = func(site string, n int) int {
		out.points = append(out.points, c20choice{site, n})
		a := dev[idx]
		idx++
		return a
	}
	defer func() { zygo.VerifMapChooser = nil }()
	// capture stdout
	old := os.Stdout
	tmp, _ := os.CreateTemp("", "c20out")
	os.Stdout = tmp
	defer func() {
		os.Stdout = old
		tmp.Seek(0, 0)
		b := make([]byte, 1<<16)
		n, _ := tmp.Read(b)
		out.stdout = c20scrub.ReplaceAllString(string(b[:n]), "@")
		tmp.Close()
		os.Remove(tmp.Name())
		if r := recover(); r != nil {
			out.err = "PANIC " + fmt.Sprint(r)
		}
	}()
	zygo.VerifSetStepBudget(0)
	env := zygo.NewZlisp()
	defer env.Close()
	env.StandardSetup()
	if p.demo {
		env.ImportDemoData()
	}
	zygo.VerifSetStepBudget(3000000)
	v, err := env.EvalString(p.src + "\n")
	if err != nil {
		out.err = c20scrub.ReplaceAllString(err.Error(), "@")
		// stack traces in "caught panic" errors carry goroutine details
		if i := strings.Index(out.err, "stack trace:"); i >= 0 {
			out.err = out.err[:i]
		}
		return
	}
	if v != nil {
		out.val = c20scrub.ReplaceAllString(v.SexpString(nil), "@")
	}
	return
}

func c20alternatives(n int) []int {
	switch {
	case n == 2:
		return []int{1}
	case n == 3:
		return []int{1, 2, 4, 5, 6}
	}
	return []int{1, 2, 3, 4}
}

var c20plainName = regexp.MustCompile(`^[A-Za-z_][A-Za-z0-9_]*$`) // names that can be written as one symbol in source text

var c20exclude = regexp.MustCompile(`\(now\)|random|\(system|sleep|timeit|slurp|owrite|writef|setenv|getenv|\(source|\(import|\(include|\(req |gob|readline|stdin|\(exit|chan|go-|\(go |<!|send|\(rand|unixnano|\.zy"|tests/|millis|expectError`)

func c20corpus() []c20prog {
	var ps []c20prog
	files, _ := filepath.Glob("/repo/tests/*.zy")
	sort.Strings(files)
	for _, f := range files {
		b, err := os.ReadFile(f)
		if err != nil || c20exclude.Match(b) {
			continue
		}
		ps = append(ps, c20prog{name: filepath.Base(f), src: string(b), demo: true})
	}
	gen := []string{
		// printing, encodings, records, symbols: the places where registries and tables are walked
		`(def h (hash c: 3 a: 1 b: 2)) (list (str h) (keys h) (json h) (msgpack h))`,
		`(defmap ranch) (def r (ranch name: "x" size: 3 zed: [1 2])) (list (str r) (json r) (unjson (json r)) (unmsgpack (msgpack r)))`,
		`(def w (weather size: 12 type: "sunny")) (def s (snoopy cry: "yeah")) (list (str (togo w)) (_method s GetCry:) (_method s EchoWeather: w))`,
		`(def he (hellcat speed: 567)) (def sn (snoopy chld: he friends: [he (hornet speed: 3)])) (list (str sn) (json sn) (str (togo sn)))`,
		`(list (symnum (quote car)) (symnum (quote zzz1)) (< (quote car) (quote cdr)) (gensym) (str2sym "abc"))`,
		`(struct Car [(field Id: int64 e:0) (field Name: string e:1)]) (def c (Car Id: 1 Name: "n")) (list (str c) (json c) (type? c) (fieldls c))`,
		`(def p (package "pk" { (def A 1) (def B 2) (defn F [] (+ A B)) })) (list (str p) (p.F))`,
		`(defn f [a b] (+ a b)) (list (str f) (f 1 2) (macexpand (range k v (hash a: 1) (println k))))`,
		`(_ls)`,
		`(def e (eventdemo id: 1 user: (persondemo first: "a" last: "b") flight: "f" pilot: ["p" "q"])) (list (str e) (json e) (str (togo e)))`,
		`(methodls (snoopy))`,
		`(fieldls (snoopy))`,
		`(hash zeta: 1 alpha: 2 "str" 3 5 6 'c' 7)`,
		`(list (type? 1) (type? "s") (type? [1]) (type? (hash)) (type? (list 1)) (type? car))`,
		`(undefined-function 1 2)`,
		`(+ 1 "a")`,
		`(let [x 1] (undefinedsym))`,
		// Go -> record with nested registered structs (harness-registered types) and plain JSON without a key order
		`(def a (vall p:(vinner s:"q" n:7) if:(vother q:"o") ifs:[(vinner s:"e" n:1)] v:(vinner s:"v" n:2))) (_method a EchoSelf:)`,
		`(def a (vall str:"x")) (list (_method a MakeInner:) (_method a EchoInner: (vinner s:"z" n:3)))`,
		`(unjson (raw "{\"b\":1,\"a\":2,\"c\":{\"z\":1,\"y\":[1,2]}}"))`,
		`(str (unjson (raw "{\"Atype\":\"ranch2\",\"q\":1,\"p\":2}")))`,
		// the names of registered types are bound (and interned) while the interpreter is constructed
		`(list (- (symnum (quote int64)) (symnum (quote string))) (< (quote rune) (quote float64)) (- (symnum (quote bool)) (symnum (quote uint8))) (< (quote snoopy) (quote hornet)) (< (quote vall) (quote vinner)))`,
		// a Go method returning a struct registered under two names, directly and held by value
		`(def a (vall str:"x" v:(vinner s:"v" n:1))) (list (_method a MakeTwo:) (_method a HolderOfTwo:) (_method a MakeInner:) (_method a EchoSelf:))`,
		// one record referenced from slots of different shapes of its parent (by value, by pointer, in an interface, in
		// slices and a map): the parent's members are walked in map order while the conversion remembers what it has converted
		`(def e (vinner s:"a" n:1)) (def a (vall v:e if:e)) (str (togo a))`,
		`(def e (vinner s:"a" n:1)) (def a (vall if:e v:e p2:e)) (list (str (togo a)) (_method a EchoSelf:))`,
		`(def e (vinner s:"a" n:1)) (def a (vall v:e p:e if:e ifs:[e] vs:[e] ps:[e] mif:(hash k:e))) (list (str (togo a)) (_method a EchoSelf:))`,
		// things an earlier interpreter of the process may leave behind: a refused encoding of self-containing data, a record
		// type named like a function of the standard setup
		`(raw2str (json (hash a: 1 b: [1 2])))`,
		`(str (date "2017/12/25"))`,
		`(list (str (dur "1h")) (first (list (eval (quote (+ 1 2))))))`,
		// a record overwritten through a pointer: the target's field order is observable
		`(struct Pt [(field w: int64 e:0) (field x: int64 e:1) (field y: int64 e:2) (field z: int64 e:3)]) (def a (Pt w: 1 x: 2 y: 3 z: 4)) (def p (& a)) (derefSet p (Pt z: 30 w: 40 x: 10 y: 20)) (list (str a) (keys a) (json a) (hpair a 0))`,
		`(def h1 (hash q: 1 r: 2 s: 3 t: 4)) (def h2 (hash t: 9 s: 8 r: 7 q: 6 u: 5)) (def p (& h1)) (derefSet p h2) (list (str h1) (keys h1) (str (* p)))`,
		// decoded data whose member names the interpreter has never seen: their symbol numbers are assigned while decoding
		// (differences of numbers: absolute numbers depend on the process history, which is the recorded finding gen04)
		`(def h (unjson (raw "{\"Atype\":\"hash\", \"nqa\":1, \"nqb\":{\"Atype\":\"hash\", \"nqz\":1, \"nqy\":2, \"zKeyOrder\":[\"nqz\",\"nqy\"]}, \"nqc\":[1, 2], \"nqd\":4, \"zKeyOrder\":[\"nqd\",\"nqa\",\"nqb\",\"nqc\"]}"))) (list (str h) (keys h) (- (symnum (str2sym "nqa")) (symnum (str2sym "nqd"))) (- (symnum (str2sym "nqz")) (symnum (str2sym "nqc"))) (< (str2sym "nqa") (str2sym "nqc")) (< (str2sym "nqy") (str2sym "nqd")))`,
		`(def h (unjson (raw "{\"mqa\":1, \"mqb\":{\"mqz\":1, \"mqy\":2}, \"mqc\":3}"))) (list (str h) (- (symnum (str2sym "mqa")) (symnum (str2sym "mqc"))) (- (symnum (str2sym "mqy")) (symnum (str2sym "mqb"))) (< (str2sym "mqa") (str2sym "mqz")))`,
		`(def h (unmsgpack (msgpack (unjson (raw "{\"pqa\":1, \"pqb\":2, \"pqc\":{\"pqd\":1,\"pqe\":2}}"))))) (list (str h) (keys h) (- (symnum (str2sym "pqa")) (symnum (str2sym "pqe"))) (- (symnum (str2sym "pqb")) (symnum (str2sym "pqd"))))`,
		// member names equal up to letter case, no recorded key order
		`(def h (unjson (raw "{\"id\":1, \"ID\":2, \"Id\":3, \"iD\":4, \"x\":{\"k\":1,\"K\":2}}"))) (list (str h) (keys h) (json h) (hpair h 0) (hpair h 3))`,
		`(def h (unmsgpack (msgpack (unjson (raw "{\"ab\":1, \"AB\":2, \"Ab\":3}"))))) (list (str h) (keys h) (json h))`,
	}
	for i, g := range gen {
		ps = append(ps, c20prog{name: fmt.Sprintf("gen%02d", i), src: g, demo: true})
	}
	// process history: an earlier interpreter had an encoding refused / failed in other ways, or declared a record type
	// named like something the standard setup binds
	cyc := `(def cy [0]) (aset cy 0 cy) (def hc (hash a: 1)) (hset hc a: hc) `
	ps = append(ps,
		c20prog{name: "hist-json-after-refusal", src: `(list (raw2str (json (hash a: 1 b: [1 2 [3 [4]]]))) (unjson (json [1 [2 [3]]])) (unmsgpack (msgpack (hash k: [1]))))`, demo: true,
			before: []string{cyc + `(json cy)`, cyc + `(msgpack hc)`, cyc + `(== cy cy)`, cyc + `(str (json hc))`}},
		c20prog{name: "hist-compare-after-failures", src: `(list (== [1 [2 [3]]] [1 [2 [3]]]) (< 1 2) (== (list 1 2) (list 1 2)))`, demo: true,
			before: []string{cyc + `(== cy cy)`, `(== 1 "a")`, cyc + `(< hc hc)`, `(== (list 1 2 3) (list "a" 2 3))`}},
	)
	{
		zygo.VerifSetStepBudget(0)
		env := zygo.NewZlisp()
		env.StandardSetup()
		for _, n := range env.VerifGlobalNames() {
			v, _ := env.VerifGlobal(n)
			if _, isFn := v.(*zygo.SexpFunction); !isFn || !c20plainName.MatchString(n) || c20exclude.MatchString("("+n+" ") {
				continue
			}
			ps = append(ps, c20prog{name: "hist-type-named-" + n, src: `(list (type? ` + n + `) (str ` + n + `) (defined? (quote ` + n + `)))`, demo: false,
				before: []string{`(defmap ` + n + `) (` + n + ` a: 1)`, `(def r (msgmap (quote ` + n + `) [(quote a) 1])) r`, `(struct ` + n + ` [(field a: int64 e:0)])`}})
		}
		env.Close()
	}
	return ps
}

func c20one(c *engine.Ctx, pi int, p c20prog, pairs bool) {
	w := fmt.Sprintf("%d|%s", pi, p.name)
	c.Begin(w)
	base := c20run(p, nil)
	viol := func(clause, site, detail string) {
		c.Violation(clause, "C20/"+clause+"/"+site, w, detail)
	}
	c.Count("choice_points", int64(len(base.points)))
	c.Count("transitions", 1)
	c.SetAdd("states", p.name+"|"+base.obs())
	// every single deviation
	for i, pt := range base.points {
		for _, alt := range c20alternatives(pt.n) {
			c.Count("transitions", 1)
			c.Count("alternatives_explored", 1)
			got := c20run(p, map[int]int{i: alt})
			c.SetAdd("states", p.name+"|"+got.obs())
			if got.obs() != base.obs() {
				viol("map-order", pt.site, fmt.Sprintf("program %s: with the map at %s (%d keys) iterated in order #%d instead of sorted, the observable result changes.\n--- sorted order:\n%s\n--- deviating order:\n%s", p.name, pt.site, pt.n, alt, clipS(base.obs(), 700), clipS(got.obs(), 700)))
				break
			}
			if len(got.points) != len(base.points) {
				c.Count("runs_with_different_choice_point_count", 1)
			}
		}
	}
	if pairs && len(base.points) <= 40 {
		for i := range base.points {
			for j := i + 1; j < len(base.points); j++ {
				c.Count("transitions", 1)
				got := c20run(p, map[int]int{i: 1, j: 1})
				if got.obs() != base.obs() {
					viol("map-order-pair", base.points[i].site+"+"+base.points[j].site, fmt.Sprintf("program %s: reversing the maps at %s and %s changes the result", p.name, base.points[i].site, base.points[j].site))
				}
			}
		}
	}
	if len(p.before) > 0 {
		for _, b := range p.before {
			c20run(c20prog{name: p.name + "/before", src: b, demo: p.demo}, nil)
			c.Count("transitions", 1)
		}
		after := c20run(p, nil)
		if after.obs() != base.obs() {
			viol("after-earlier-interpreter", p.name, fmt.Sprintf("program %s gives a different result after other interpreters of the process evaluated %q:\n--- before:\n%s\n--- after:\n%s", p.name, p.before, clipS(base.obs(), 500), clipS(after.obs(), 500)))
		}
	}
	// earlier interpreters in the same process must not matter: run again now (this process has run others) and in a fresh process
	again := c20run(p, nil)
	if again.obs() != base.obs() {
		viol("same-process-rerun", "rerun", fmt.Sprintf("program %s gives a different result the second time in the same process:\n%s\n---\n%s", p.name, clipS(base.obs(), 500), clipS(again.obs(), 500)))
	}
	if !c.Replaying {
		exe, _ := os.Executable()
		cmd := exec.Command(exe, "C20", "replay", "-")
		cmd.Env = append(os.Environ(), "C20_RUNONE="+fmt.Sprint(pi))
		outb, _ := cmd.Output()
		fresh := string(outb)
		if i := strings.Index(fresh, "C20-RUNONE-BEGIN\n"); i >= 0 {
			fresh = fresh[i+len("C20-RUNONE-BEGIN\n"):]
			if j := strings.Index(fresh, "\nC20-RUNONE-END"); j >= 0 {
				fresh = fresh[:j]
			}
			if fresh != base.obs() {
				viol("fresh-process", p.name, fmt.Sprintf("program %s: in this process (which created interpreters before) vs in a fresh process:\n%s\n--- fresh process:\n%s", p.name, clipS(base.obs(), 500), clipS(fresh, 500)))
			}
			c.Count("fresh_process_runs", 1)
		}
	}
	c.Outcome(p.name + "|" + base.obs())
}

func init() {
	// helper mode: print the default-order observation of one program, in a fresh process
	if v := os.Getenv("C20_RUNONE"); v != "" && len(os.Args) > 2 && os.Args[1] == "C20" && os.Args[2] == "replay" {
		var pi int
		fmt.Sscan(v, &pi)
		zygo.RegisterDemoStructs()
		c10register()
		os.Chdir("/repo")
		ps := c20corpus()
		o := c20run(ps[pi], nil)
		fmt.Printf("C20-RUNONE-BEGIN\n%s\nC20-RUNONE-END\n", o.obs())
		os.Exit(0)
	}
	engine.Register(&engine.Check{
		ID:    "C20",
		Level: "model_checking",
		Rule: "deviation-bounded exploration of map-iteration choice points: package zygo is rebuilt (overlay, /repo untouched) with every range over a map routed through a chooser; for every program of a corpus (the repository's script tests that do not use time/random/files/processes + 24 programs exercising printers, encodings, registries, symbols, error texts) " +
			"the default run (all maps in sorted order, interpreter construction included) records the choice points, then every single deviation (reverse, rotate by 1, rotate by half, swap first two; all permutations for <=3 keys) is executed [thorough: + all pairs of reversals]; " +
			"value, captured stdout and error text must equal the default run's; each program is also re-run in the same process and in a fresh process; states = distinct (program, observation) pairs, transitions = executions",
		Assumptions: []string{"pointer values, dates and monotonic-clock readings are scrubbed from the compared text", "maps keyed by interface{} (1 site, a debug dump) and maps inside third-party modules are not controlled"},
		Run: func(c *engine.Ctx) {
			zygo.RegisterDemoStructs()
			c10register()
			os.Chdir("/repo")
			ps := c20corpus()
			if c.Worker == 0 {
				c.Count("programs", int64(len(ps)))
			}
			if b, err := os.ReadFile(filepath.Join(os.Getenv("VERIF_DIR"), "bin/mo/report.json")); err == nil {
				c.Note("seam", string(b))
			}
			for i, p := range ps {
				if c.Expired() {
					return
				}
				if c.Mine() {
					c20one(c, i, p, c.Thorough())
				}
			}
		},
		Replay: func(c *engine.Ctx, w string) {
			zygo.RegisterDemoStructs()
			c10register()
			os.Chdir("/repo")
			var pi int
			fmt.Sscan(strings.SplitN(w, "|", 2)[0], &pi)
			ps := c20corpus()
			c20one(c, pi, ps[pi], false)
			for i := range c.Viol {
				c.Viol[i].Key = "*"
			}
		},
	})
}
