package props

import (
	"fmt"
	"hash/fnv"
	"sort"
	"strconv"
	"strings"

	"github.com/glycerine/zygomys/v9/zygo"

	"verif/internal/engine"
	"verif/internal/explore"
	"verif/internal/zy"
)

// C14 — hashes behave as insertion-ordered maps under every operation history.
//
// Explicit-state BFS over histories of hset/hdel on one real SexpHash, driven
// through script text. After every step the whole observer battery is compared
// with an ordered-map model (R2) and with a twin hash built from the model's
// live content by plain insertion (differential oracle for str/json/msgpack).

type c14key struct {
	text  func(env *zygo.Zlisp) string // how the key is written in script text
	shown func(env *zygo.Zlisp) string // how `keys`/`str` print it
}

func c14keys(thorough bool) []c14key {
	lit := func(t, s string) c14key {
		return c14key{func(*zygo.Zlisp) string { return t }, func(*zygo.Zlisp) string { return s }}
	}
	symColl := func(env *zygo.Zlisp) string {
		n, _ := zygo.HashExpression(nil, env.MakeSymbol("a"))
		return strconv.Itoa(n)
	}
	strColl := func(*zygo.Zlisp) string {
		h := fnv.New32()
		h.Write([]byte("s"))
		return strconv.Itoa(int(h.Sum32()))
	}
	ks := []c14key{
		lit("a:", "a"),
		lit(`"s"`, `"s"`),
		lit("3", "3"),
		lit("'c'", "'c'"),
		lit("[7]", "7"),    // one-element array keys denote their element
		{symColl, symColl}, // integer in the same bucket as symbol a
		{strColl, strColl}, // integer in the same bucket as string "s"
	}
	if thorough {
		// (not the integer 99: it compares equal to the character 'c', so by the language's own key equality it is
		// the same key, not a colliding one)
		ks = append(ks, lit("[1 2]", "[1 2]"), lit("b:", "b"))
	}
	return ks
}

type c14op struct {
	del bool
	key int
	val int
}

func c14ops(nk int) []c14op {
	var ops []c14op
	for k := 0; k < nk; k++ {
		ops = append(ops, c14op{false, k, 1}, c14op{false, k, 2}, c14op{true, k, 0})
	}
	return ops
}

func c14witness(ops []c14op, h []int) string {
	var parts []string
	for _, i := range h {
		o := ops[i]
		if o.del {
			parts = append(parts, fmt.Sprintf("d%d", o.key))
		} else {
			parts = append(parts, fmt.Sprintf("s%d=%d", o.key, o.val))
		}
	}
	return strings.Join(parts, " ")
}

func c14parse(w string) []c14op {
	var out []c14op
	for _, f := range strings.Fields(w) {
		if f[0] == 'd' {
			k, _ := strconv.Atoi(f[1:])
			out = append(out, c14op{true, k, 0})
		} else {
			kv := strings.SplitN(f[1:], "=", 2)
			k, _ := strconv.Atoi(kv[0])
			v, _ := strconv.Atoi(kv[1])
			out = append(out, c14op{false, k, v})
		}
	}
	return out
}

type kv struct{ k, v int }

func c14kind(k int) string {
	switch k {
	case 0, 8:
		return "symbol"
	case 1:
		return "string"
	case 3:
		return "char"
	case 7:
		return "array"
	}
	return "int"
}

// c14run applies the history to a fresh interpreter and checks the battery
// after the final step. Returns the canonical state key.
func c14run(c *engine.Ctx, keys []c14key, hist []c14op, record bool) string {
	w := ""
	{
		var parts []string
		for _, o := range hist {
			if o.del {
				parts = append(parts, fmt.Sprintf("d%d", o.key))
			} else {
				parts = append(parts, fmt.Sprintf("s%d=%d", o.key, o.val))
			}
		}
		w = strings.Join(parts, " ")
	}
	if record {
		c.Begin(w)
	}
	env := zy.New(true)
	defer env.Close()
	zygo.VerifSetStepBudget(200000)
	var model []kv
	find := func(k int) int {
		for i, e := range model {
			if e.k == k {
				return i
			}
		}
		return -1
	}
	viol := func(clause, detail string) {
		if !record {
			return
		}
		// key: clause + shape of the last operation relative to the model
		c.Violation(clause, "C14/"+clause, w, detail)
	}
	zy.Eval(env, "(def h (hash))")
	for i, o := range hist {
		kt := keys[o.key].text(env)
		var r zy.Res
		if o.del {
			r = zy.Eval(env, "(hdel h "+kt+")")
			if j := find(o.key); j >= 0 {
				model = append(model[:j:j], model[j+1:]...)
			}
		} else {
			r = zy.Eval(env, fmt.Sprintf("(hset h %s %d)", kt, o.val))
			if j := find(o.key); j >= 0 {
				model[j].v = o.val
			} else {
				model = append(model, kv{o.key, o.val})
			}
		}
		if !r.OK() && i == len(hist)-1 {
			viol("op-failed", fmt.Sprintf("operation %d returned %s", i, r))
		}
	}
	// ---- observers against the model
	var outcome strings.Builder
	obs := func(name, src, want string) {
		r := zy.Eval(env, src)
		got := r.Short()
		outcome.WriteString(got)
		outcome.WriteByte('|')
		if got != want {
			viol(name, fmt.Sprintf("%s gave %s, model says %s (model content %v)", src, r, want, model))
		}
	}
	obs("len", "(len h)", strconv.Itoa(len(model)))
	{
		var ks []string
		for _, e := range model {
			ks = append(ks, keys[e.k].shown(env))
		}
		obs("keys", "(keys h)", "["+strings.Join(ks, " ")+"]")
	}
	for k := range keys {
		kt := keys[k].text(env)
		if j := find(k); j >= 0 {
			obs("hget", "(hget h "+kt+")", strconv.Itoa(model[j].v))
			obs("hget-default", "(hget h "+kt+" 77)", strconv.Itoa(model[j].v))
		} else {
			obs("hget-absent", "(hget h "+kt+")", "ERR")
			obs("hget-default-absent", "(hget h "+kt+" 77)", "77")
		}
	}
	for i, e := range model {
		obs("hpair", fmt.Sprintf("(hpair h %d)", i), fmt.Sprintf("(%s %d)", keys[e.k].shown(env), e.v))
	}
	obs("hpair-end", fmt.Sprintf("(hpair h %d)", len(model)), "ERR")
	{
		var parts []string
		for _, e := range model {
			parts = append(parts, keys[e.k].shown(env), strconv.Itoa(e.v))
		}
		// range rebinds one key variable per iteration; def enforces the type of
		// the first binding, so keys of different types are a class of their own
		// (KNOWN_FINDINGS: range-mixed-key-types).
		clause := "range"
		kinds := map[string]bool{}
		for _, e := range model {
			kinds[c14kind(e.k)] = true
		}
		if len(kinds) > 1 {
			clause = "range-mixed-key-types"
		}
		zy.Eval(env, "(def acc (list))")
		r := zy.Eval(env, "(range k v h (set acc (cons v (cons k acc))))")
		if !r.OK() {
			viol(clause, fmt.Sprintf("range over h failed: %s (model %v)", r, model))
		}
		// acc is built by consing, so it is the reversed flat list
		for i, j := 0, len(parts)-1; i < j; i, j = i+1, j-1 {
			parts[i], parts[j] = parts[j], parts[i]
		}
		want := "(" + strings.Join(parts, " ") + ")"
		if len(parts) == 0 {
			want = "nil"
		}
		obs(clause, "acc", want)
	}
	// ---- differential: twin built by plain insertion of the live content
	zy.Eval(env, "(def g (hash))")
	for _, e := range model {
		zy.Eval(env, fmt.Sprintf("(hset g %s %d)", keys[e.k].text(env), e.v))
	}
	for _, f := range []string{"str", "json", "msgpack"} {
		a := zy.Eval(env, "("+f+" h)")
		b := zy.Eval(env, "("+f+" g)")
		outcome.WriteString(a.Short())
		outcome.WriteByte('|')
		if a.Short() != b.Short() {
			viol(f, fmt.Sprintf("(%s h) = %s but a hash holding the same content gives %s", f, a, b))
		}
	}
	{
		a := zy.Eval(env, "(== h g)")
		if a.Short() != "true" {
			viol("equal-to-twin", fmt.Sprintf("(== h g) = %s for twin g with the same content %v", a, model))
		}
	}
	// ---- what the observers return belongs to the caller: writing into the array of (keys h), or growing it after the
	// hash itself has grown, changes nothing in the hash
	if record {
		var ks []string
		for _, e := range model {
			ks = append(ks, keys[e.k].shown(env))
		}
		zy.Eval(env, "(def kk (keys h))")
		zy.Eval(env, "(cond (> (len kk) 0) (aset kk 0 (quote zz9)) nil)")
		obs("keys-after-aset-on-result", "(keys h)", "["+strings.Join(ks, " ")+"]")
		obs("len-after-aset-on-result", "(len h)", strconv.Itoa(len(model)))
		zy.Eval(env, "(def kk (keys h))")
		zy.Eval(env, "(hset h (quote fresh9) 5)")
		zy.Eval(env, "(def kk2 (append kk (quote zz9)))")
		obs("keys-after-append-on-result", "(keys h)", "["+strings.Join(append(append([]string{}, ks...), "fresh9"), " ")+"]")
		obs("kept-keys-after-hset", "kk", "["+strings.Join(ks, " ")+"]")
		obs("hget-after-append-on-result", "(hget h (quote fresh9))", "5")
		zy.Eval(env, "(hdel h (quote fresh9))")
		obs("keys-after-hdel", "(keys h)", "["+strings.Join(ks, " ")+"]")
	}
	if record {
		c.Outcome(outcome.String())
	}
	// ---- canonical state: the three redundant structures
	hv := zy.Eval(env, "h")
	hh, ok := hv.Sexp.(*zygo.SexpHash)
	if !ok {
		viol("lost-hash", "h is no longer a hash: "+hv.String())
		return "lost:" + w
	}
	var sb strings.Builder
	sb.WriteString("order=")
	for _, k := range hh.KeyOrder {
		sb.WriteString(k.SexpString(nil))
		sb.WriteByte(',')
	}
	fmt.Fprintf(&sb, " n=%d buckets=", hh.NumKeys)
	var bk []int
	for b := range hh.Map {
		bk = append(bk, b)
	}
	sort.Ints(bk)
	for _, b := range bk {
		// bucket numbers of symbols depend on interning order, which is
		// fixed for a given build; the content is what matters.
		sb.WriteString("[")
		for _, p := range hh.Map[b] {
			sb.WriteString(p.Head.SexpString(nil) + "=" + p.Tail.SexpString(nil) + ";")
		}
		sb.WriteString("]")
	}
	return sb.String()
}

func init() {
	engine.Register(&engine.Check{
		ID:    "C14",
		Level: "model_checking",
		Rule: "explicit-state BFS over histories of hset(k,v)/hdel(k) on one real SexpHash (fresh interpreter per history, replay + 1 op); " +
			"state key = KeyOrder + NumKeys + bucket dump; after every step the observer battery (len, keys, hget, hget-default, hpair i, range, str, json, msgpack, ==; then writes into / growth of the array that keys returned, around a further hset) " +
			"is compared with an ordered-map model and a twin hash built by plain insertion; distinct_nontrivial = distinct observer vectors",
		Assumptions: []string{
			"key universe: symbol, string, int, char, one-element array, int colliding with the symbol's bucket, int colliding with the string's bucket (thorough: + two-element array, a second symbol)",
			"values 1 and 2; observers run after the last operation of each history (prefixes are histories of their own)",
			"a one-element array key denotes its element (documented unwrap in HashSet/HashGet)",
		},
		Run: func(c *engine.Ctx) {
			keys := c14keys(c.Thorough())
			ops := c14ops(len(keys))
			depth := 4
			if c.Thorough() {
				depth = 5
			}
			b := &explore.BFS{NOps: len(ops), Depth: depth, ShardLevel: 1,
				Step: func(h []int, record bool) (string, bool) {
					hist := make([]c14op, len(h))
					for i, x := range h {
						hist[i] = ops[x]
					}
					return c14run(c, keys, hist, record), true
				}}
			b.Run(c)
			c.Note("bound", fmt.Sprintf("depth %d over %d operations (%d keys)", depth, len(ops), len(keys)))
		},
		Replay: func(c *engine.Ctx, w string) {
			c14run(c, c14keys(true), c14parse(w), true)
		},
	})
}
