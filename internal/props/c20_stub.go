//go:build !maporder

package props

// C20 lives in c20.go, which is only compiled into the binary that is built with the
// map-order seam (-tags maporder -overlay bin/mo/overlay.json); see run.sh.
