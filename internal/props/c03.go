package props

import (
	"fmt"

	"verif/internal/engine"
	"verif/internal/gen"
	. "verif/internal/ref"
)

// C03 — lexical scoping. Scope skeletons over the tiny name pool {x, y};
// every binding site binds a distinct integer (# below), so the value
// returned identifies which binding was seen.

func c03ctx() []gen.Ctx {
	return []gen.Ctx{
		tmpl("fn-x", 1, `((fn [x] $1) #)`),
		tmpl("fn-y", 1, `((fn [y] $1) #)`),
		tmpl("let-x", 1, `(let [x #] $1)`),
		tmpl("let-y", 1, `(let [y #] $1)`),
		tmpl("letseq-xy", 1, `(letseq [x # y x] $1)`),
		tmpl("newScope-def", 1, `(newScope (def x #) $1)`),
		tmpl("def-then", 1, `(begin (def x #) $1)`),
		tmpl("set-then", 1, `(begin (set x #) $1)`),
		tmpl("then-read", 1, `(list $1 x y)`),
		tmpl("pair", 2, `(list $1 $2)`),
		tmpl("escape-let", 1, `(begin (def k (let [x #] (fn [] $1))) (k))`),
		tmpl("escape-fn", 1, `(begin (def k ((fn [x] (fn [] $1)) #)) (k))`),
		tmpl("escape-fn-arg", 1, `(begin (def k ((fn [x] (fn [y] $1)) #)) (k #))`),
		tmpl("caller-local", 1, `(begin (defn callee [] $1) ((fn [x] (callee)) #))`),
		tmpl("caller-local-let", 1, `(begin (defn callee [] $1) (let [x # y #] (callee)))`),
		tmpl("shared", 1, `(let [x #] (begin (def inc (fn [] (set x (+ x 1)))) (def get (fn [] $1)) (inc) (get)))`),
		tmpl("fresh-per-call", 1, `(begin (def mk (fn [x] (fn [] (set x (+ x 1))))) (def c1 (mk #)) (def c2 (mk #)) (c1) (list (c1) (c2) $1))`),
		tmpl("for-x", 1, `(begin (def r 0) (for [(def x 0) (< x 2) (set x (+ x 1))] (set r $1)) (list r x))`),
		tmpl("for-closures", 1, `(begin (def fs []) (for [(def i 0) (< i 2) (set i (+ i 1))] (let [x i] (set fs (append fs (fn [] $1))))) (map (fn [g] (g)) fs))`),
		tmpl("tail-loop", 1, `(begin (defn lp [n x] (cond (== n 0) $1 (lp (- n 1) (+ x 1)))) (lp 2 #))`),
		tmpl("tail-loop-closure", 1, `(begin (defn lp [n x acc] (cond (== n 0) (map (fn [g] (g)) acc) (lp (- n 1) (+ x 1) (append acc (fn [] $1))))) (lp 2 # []))`),
		tmpl("tail-first-arm-in-let", 1, `(begin (defn lp2 [n x] (let [q n] (cond (> n 0) (lp2 (- n 1) (+ x 1)) $1))) (let [r (lp2 2 #)] (list r x y)))`),
		tmpl("tail-first-arm-in-newscope", 1, `(begin (defn lp3 [n y] (newScope (cond (> n 0) (lp3 (- n 1) (+ y 1)) (== n 0) $1 0))) (begin (def r2 (lp3 2 #)) (list r2 x y ((fn [] (list x y))))))`),
		tmpl("passed", 1, `((fn [g x] (g)) (fn [] $1) #)`),
		tmpl("stored", 1, `(begin (def st [(fn [] $1)]) ((fn [x] ((aget st 0))) #))`),
		tmpl("inner-set", 1, `(begin ((fn [] (set x #))) $1)`),
		tmpl("inner-def", 1, `(begin ((fn [] (def x #))) $1)`),
		tmpl("defn-inside", 1, `((fn [x] (begin (defn inner [y] $1) (inner #))) #)`),
		tmpl("cond-scope", 1, `(cond (let [x #] false) 0 $1)`),
		// three levels: the middle function is instantiated by two activations of the outer one, and the first inner
		// closure is called after the second one exists
		tmpl("three-levels-two-activations", 1, `(begin (defn outer3 [x] (fn [] (fn [] $1))) (def m1 (outer3 #)) (def i1 (m1)) (def m2 (outer3 #)) (def i2 (m2)) (list (i1) (i2) (i1)))`),
		tmpl("three-levels-setter", 1, `(begin (defn outer4 [x] (fn [] (fn [v] (begin (set x v) $1)))) (def s1 ((outer4 #))) (def s2 ((outer4 #))) (list (s1 #) (s2 #) (s1 #)))`),
		tmpl("three-levels-defn", 1, `(begin (defn outer5 [y] (begin (defn mid [] (begin (defn inn [] $1) inn)) (mid))) (def j1 (outer5 #)) (def j2 (outer5 #)) (list (j1) (j2) (j1)))`),
		// closures bound by def inside a per-iteration let of a loop, kept and called after the loop
		tmpl("for-let-def-closures", 1, `(begin (def fs []) (for [(def i 0) (< i 3) (set i (+ i 1))] (let [x (* i 10)] (def g (fn [] $1)) (set fs (append fs g)))) (list ((aget fs 0)) ((aget fs 2)) ((aget fs 1))))`),
		tmpl("fn-for-let-def-closures", 1, `((fn [] (begin (def fs []) (for [(def i 0) (< i 3) (set i (+ i 1))] (let [y (* i 10)] (def g (fn [] $1)) (set fs (append fs g)))) (list ((aget fs 0)) ((aget fs 2)) ((aget fs 1))))))`),
		// a closure made in a block that is still empty; the block gets its binding afterwards
		tmpl("closure-then-def-newscope", 1, `((fn [] (newScope (def g (fn [] $1)) (def x #) (g))))`),
		tmpl("closure-then-def-let", 1, `((fn [] (let [] (def g (fn [] $1)) (def y #) (g))))`),
		tmpl("closure-then-set-newscope", 1, `((fn [] (newScope (def g (fn [] $1)) (set x #) (g))))`),
		// sibling blocks of one activation: closures made at the same depth in different blocks, a block entered after
		// its sibling is gone
		tmpl("sibling-lets", 2, `((fn [] (let [a (let [x #] (fn [] $1)) b (let [x #] (fn [] $2))] (list (a) (b) (a)))))`),
		tmpl("sibling-blocks-plain", 1, `((fn [] (begin (let [y #] (+ 0 y)) (let [z #] $1))))`),
		tmpl("sibling-blocks-after-closure", 1, `((fn [] (begin (def g0 (let [y #] (fn [] y))) (let [z #] (list (g0) $1)))))`),
		tmpl("sibling-set", 2, `((fn [] (begin (def get1 (let [x #] (fn [] $1))) (def set2 (let [x #] (fn [v] (begin (set x v) $2)))) (list (set2 #) (get1)))))`),
		tmpl("recursive-defn-in-block", 1, `((fn [] (newScope (defn down [n] (cond (== n 0) $1 (down (- n 1)))) (down 2))))`),
	}
}

func c03leaves() []*T {
	return []*T{Sym("x"), Sym("y"), p1(`(list x y)`), subst(p1(`(set x #)`), nil), subst(p1(`(def y #)`), nil), subst(p1(`(begin (set y #) (list x y))`), nil)}
}

func c03prelude() []*T { return Parse(`(def x 100) (def y 200)`) }

func c03case(c *engine.Ctx, t *T, style int) {
	t = gen.Renumber(t)
	res := diffProgram(c, "C03", c03prelude(), []*T{t}, style, progOpts{keyDepth: 5})
	if res.tr != nil {
		res.tr.Env.Close()
	}
}

func init() {
	engine.Register(&engine.Check{
		ID:    "C03",
		Level: "exploration",
		Rule: "scope skeletons over the name pool {x,y}: chains of 42 contexts (functions called immediately / returned / stored / passed, defn inside functions, let, letseq, newScope, for, tail loops, " +
			"sibling closures sharing a variable, one creator called twice, caller-local decoys, closures made in a still-empty block that is bound afterwards, three nesting levels with two activations, closures bound inside per-iteration lets) to length 3 (thorough 4) over 6 leaves that read or write x and y; every binding site binds a distinct integer; " +
			"value compared with the reference evaluator; distinct_nontrivial = distinct (shape, value) pairs",
		Assumptions: []string{"R1's textbook lexical scoping is the oracle; bindings are integers only (the re-def type rule is not exercised)"},
		Run: func(c *engine.Ctx) {
			ctxs, leaves := c03ctx(), c03leaves()
			maxLen := 3
			if c.Thorough() {
				maxLen = 4
			}
			n := int64(0)
			for k := 0; k <= maxLen; k++ {
				gen.EnumChains(ctxs, leaves, leaves[:2], k, func(t *T) bool {
					n++
					if c.Mine() {
						c03case(c, t, 0)
					}
					return !c.Expired()
				})
			}
			c.Note("bound", fmt.Sprintf("chains of length <= %d over %d contexts and %d leaves", maxLen, len(ctxs), len(leaves)))
		},
		Replay: func(c *engine.Ctx, w string) {
			replayProgram(c, "C03", c03prelude(), w, nil, progOpts{keyDepth: 5})
		},
	})
}
