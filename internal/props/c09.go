package props

import (
	"fmt"
	"strconv"
	"strings"

	"github.com/glycerine/zygomys/v9/zygo"

	"verif/internal/engine"
	"verif/internal/gen"
	. "verif/internal/ref"
	"verif/internal/zy"
)

// C09 — tail calls are free and invisible.
//
// Self-recursive functions whose recursive call sits in every composition of
// tail contexts (to a nesting bound), crossed with what the body does before
// the call; transparency against R1 (which has no such optimisation) for small
// depths, constant stack high-water marks for growing depths.

func c09tailCtx() []gen.Ctx {
	return []gen.Ctx{
		tmpl("cond-default", 1, `(cond (== n -1) 0 $1)`),
		tmpl("cond-first", 1, `(cond (> n 0) $1 0)`),
		tmpl("begin", 1, `(begin (t n n) $1)`),
		tmpl("let", 1, `(let [q n] $1)`),
		tmpl("letseq", 1, `(letseq [q n r q] $1)`),
		tmpl("newScope", 1, `(newScope $1)`),
		tmpl("and", 1, `(and true $1)`),
		tmpl("or", 1, `(or false $1)`),
		tmpl("let-shadow", 1, `(let [n n] $1)`),
	}
}

type c09kind struct {
	name   string
	params string // parameter vector
	base   string // value at n == 0
	call   string // the recursive call, possibly wrapped with what precedes it
	init   string // extra arguments of the initial call
	sum    bool   // result is acc + sum(1..n) (lets the deep runs check the value without R1)
	errs   bool   // the recursion raises an error by design: transparency only
}

func c09kinds() []c09kind {
	return []c09kind{
		{"plain", "[n acc]", "acc", `(f (- n 1) (+ acc n))`, "0", true, false},
		{"local-def", "[n acc]", "acc", `(begin (def loc (cond (== n 2) "s" n)) (f (- n 1) (+ acc n)))`, "0", true, false},
		{"closure-over-param", "[n acc]", `(map (fn [g] (g)) acc)`, `(f (- n 1) (append acc (fn [] n)))`, "[]", false, false},
		{"closure-over-local", "[n acc]", `(map (fn [g] (g)) acc)`, `(begin (def loc (* n 10)) (f (- n 1) (append acc (fn [] (+ loc n)))))`, "[]", false, false},
		{"closure-mutating", "[n acc]", `(map (fn [g] (g)) acc)`, `(begin (def loc n) (f (- n 1) (append acc (fn [] (set loc (+ loc 100))))))`, "[]", false, false},
		{"helper-call", "[n acc]", "acc", `(begin (def loc (helper n)) (f (- n 1) (+ acc loc)))`, "0", true, false},
		{"variadic", "[n & r]", "r", `(f (- n 1) n 7)`, "", false, false},
		{"lazy-param", "[n #x]", `(force #x)`, `(f (- n 1) (t n (+ n 100)))`, "0", false, false},
		{"arg-order", "[n acc]", "acc", `(f (t 1 (- n 1)) (t 2 (+ acc n)))`, "0", true, false},
		// an ordinary self-call inside an argument of the tail self-call (McCarthy-91 / Ackermann shape)
		{"self-call-in-arg", "[n acc]", "acc", `(f (- n 1) (f 0 (+ acc n)))`, "0", true, false},
		{"self-call-in-arg-let", "[n acc]", "acc", `(f (- n 1) (let [z (+ acc n)] (f 0 z)))`, "0", true, false},
		{"self-call-in-arg-cond", "[n acc]", "acc", `(f (- n 1) (cond (== n -5) 0 (begin (f 0 (+ acc n)))))`, "0", true, false},
		// no parameters at all: the recursion is driven by global state (the function scope must still be fresh per iteration)
		{"zero-param-closure", "[]", `(map (fn [g] (g)) accg)`, `(begin (def loc (* cnt 10)) (set accg (append accg (fn [] loc))) (set cnt (- cnt 1)) (f))`, "", false, false},
		{"zero-param-local-retyped", "[]", `accs`, `(begin (def loc (cond (== cnt 2) "s" cnt)) (set accs (+ accs cnt)) (set cnt (- cnt 1)) (f))`, "", false, false},
		{"wrong-arity", "[n acc]", "acc", `(f (t 1 (- n 1)))`, "0", false, true},
		{"wrong-arity-more", "[n acc]", "acc", `(f (- n 1) acc (t 1 7))`, "0", false, true},
		{"variadic-too-few", "[n m & r]", "r", `(f (t 1 (- n 1)))`, "0", false, true},
	}
}

func c09program(chain *T, k c09kind, n int) []*T {
	// chain has the symbol CALL where the recursive call goes
	var fill func(t *T) *T
	call := p1(k.call)
	fill = func(t *T) *T {
		if t.IsSym("CALL") {
			return call
		}
		if len(t.L) == 0 {
			return t
		}
		c := &T{K: t.K, S: t.S, I: t.I, L: make([]*T, len(t.L))}
		for i, x := range t.L {
			c.L[i] = fill(x)
		}
		return c
	}
	if k.params == "[]" {
		// driven by the globals cnt / accg / accs; fz sets them up, so that the final form keeps the shape (list (fz N) gv)
		var ren func(t *T) *T // the contexts mention the parameter n: here the counter is the global cnt
		ren = func(t *T) *T {
			if t.IsSym("n") {
				return Sym("cnt")
			}
			if len(t.L) == 0 {
				return t
			}
			cp := &T{K: t.K, S: t.S, I: t.I, L: make([]*T, len(t.L))}
			for i, x := range t.L {
				cp.L[i] = ren(x)
			}
			return cp
		}
		body := L(Sym("cond"), p1("(== cnt 0)"), p1(k.base), fill(ren(chain)))
		def := L(Sym("begin"), L(Sym("defn"), Sym("f"), p1("[]"), body), p1(`(defn fz [m] (begin (set cnt m) (set accg []) (set accs 0) (f)))`))
		return []*T{def, p1("(list (fz " + strconv.Itoa(n) + ") gv)")}
	}
	body := L(Sym("cond"), p1("(== n 0)"), p1(k.base), fill(chain))
	def := L(Sym("defn"), Sym("f"), p1(k.params), body)
	callTxt := "(f " + strconv.Itoa(n)
	if k.init != "" {
		callTxt += " " + k.init
	}
	callTxt += ")"
	return []*T{def, p1("(list " + callTxt + " gv)")}
}

func c09prelude() []*T {
	return Parse(`(defn helper [x] (t 99 x)) (def gv 0) (def cnt 0) (def accg []) (def accs 0)`)
}

type hwm struct{ data, scope, addr, loop int }

func (h hwm) String() string {
	return fmt.Sprintf("data=%d scope=%d addr=%d loop=%d", h.data, h.scope, h.addr, h.loop)
}

// c09space runs the program for depth n on the implementation alone and
// returns the stack high-water marks sampled at every builtin/function call.
// c09depthOf finds N in the final form (list (f N ...) gv).
func c09depthOf(forms []*T) (int64, bool) {
	if len(forms) == 2 && len(forms[1].L) >= 2 && len(forms[1].L[1].L) >= 2 && forms[1].L[1].L[1].K == 'i' {
		return forms[1].L[1].L[1].I, true
	}
	return 0, false
}

func c09withDepth(forms []*T, n int64) []*T {
	call := *forms[1].L[1]
	call.L = append([]*T{}, forms[1].L[1].L...)
	call.L[1] = Int(n)
	outer := *forms[1]
	outer.L = append([]*T{}, forms[1].L...)
	outer.L[1] = &call
	return []*T{forms[0], &outer}
}

func c09space(c *engine.Ctx, forms []*T, label string) (zy.Res, hwm) {
	depthArg := int64(1000)
	if n, ok := c09depthOf(forms); ok {
		depthArg = n
	}
	w := witnessOf(0, nil, forms)
	c.Begin(w)
	tr := zy.NewTraced(false)
	defer tr.Env.Close()
	zygo.VerifSetStepBudget(400*depthArg + 200000)
	var h hwm
	tr.Env.AddPreHook(func(env *zygo.Zlisp, name string, args []zygo.Sexp) {
		d := env.VerifDepths()
		if d.Data > h.data {
			h.data = d.Data
		}
		if d.Scope > h.scope {
			h.scope = d.Scope
		}
		if d.Addr > h.addr {
			h.addr = d.Addr
		}
		if d.Loop > h.loop {
			h.loop = d.Loop
		}
	})
	tr.Run(layout(c09prelude(), 0))
	tr.Trace = nil
	res := tr.Run(srcOf(forms))
	return res, h
}

func c09one(c *engine.Ctx, chainName string, chain *T, k c09kind, thorough bool) {
	if k.params == "[]" && strings.Contains(chainName, "let-shadow") {
		return // the shadowing let would hide the global counter from the decrement: no terminating program
	}
	key := k.name + "/" + chainName
	// (1) transparency against R1
	for _, n := range []int{0, 1, 2, 3, 10} {
		forms := c09program(chain, k, n)
		res := diffProgram(c, "C09", c09prelude(), forms, 0, progOpts{keyExtra: key, r1Depth: 2000, r1Fuel: 2000000, sugar: true})
		if res.tr != nil {
			// at rest afterwards
			d := res.tr.Env.VerifDepths()
			if res.impl.OK() && (d.Data != 0 || d.Scope != 1 || d.Addr != 0) {
				c.Violation("not-at-rest", "C09/not-at-rest/"+key, witnessOf(0, nil, forms), fmt.Sprintf("after a successful run the stacks are data=%d scope=%d addr=%d", d.Data, d.Scope, d.Addr))
			}
			res.tr.Env.Close()
		}
	}
	if k.errs || strings.Contains(chainName, "nt-") {
		return // ordinary recursion: transparency only, the stack legitimately grows
	}
	// (2) space: high-water marks must not depend on the depth
	depths := []int{10, 60, 300}
	if thorough {
		depths = []int{10, 100, 1000}
	}
	if thorough && len(chainName) < 30 {
		depths = append(depths, 100000)
	}
	var base hwm
	for i, n := range depths {
		if n > 1000 && !k.sum {
			continue // accumulating closures is O(n) data by design; only the stacks are measured up to 1000
		}
		forms := c09program(chain, k, n)
		res, h := c09space(c, forms, key)
		w := witnessOf(0, nil, forms)
		if !res.OK() {
			c.Violation("deep-run-failed", "C09/deep-run-failed/"+key, w, fmt.Sprintf("depth %d: %s", n, res))
			continue
		}
		if k.sum {
			want := "(" + strconv.Itoa(n*(n+1)/2) + " 0)"
			if res.Val != want {
				c.Violation("deep-value", "C09/deep-value/"+key, w, fmt.Sprintf("depth %d returned %s, want %s", n, res.Val, want))
			}
		}
		if i == 0 {
			base = h
		} else if h != base {
			c.Violation("space", "C09/space/"+key, w, fmt.Sprintf("stack high-water marks grow with the recursion depth: depth %d: %s; depth %d: %s", depths[0], base, n, h))
		}
		c.Outcome(key + "|" + strconv.Itoa(n) + "|" + h.String() + "|" + clipS(res.Val, 40))
	}
}

func clipS(s string, n int) string {
	if len(s) > n {
		return s[:n]
	}
	return s
}

// positions that are NOT tail positions: the call must be an ordinary call there
func c09nonTailCtx() []gen.Ctx {
	return []gen.Ctx{
		// each context does something with the call's value afterwards, so a jump instead of a call changes the result
		tmpl("nt-and-first", 1, `(and $1 (t 6 77))`),
		tmpl("nt-or-first", 1, `(or (not $1) (t 6 78))`),
		tmpl("nt-begin-first", 1, `(begin $1 (t 5 n))`),
		tmpl("nt-let-binding", 1, `(let [q $1] (list q n))`),
		tmpl("nt-letseq-binding", 1, `(letseq [q $1 r q] (list r n))`),
		tmpl("nt-cond-test", 1, `(cond $1 (t 6 1) (t 7 2))`),
		tmpl("nt-argument", 1, `(list 0 $1)`),
		tmpl("nt-array", 1, `[$1]`),
		tmpl("nt-set-global", 1, `(set gv $1)`),
		tmpl("nt-def-local", 1, `(begin (def lv $1) (list lv n))`),
		tmpl("nt-assert", 1, `(begin (assert (not (== 5 $1))) (t 6 n))`),
		tmpl("nt-hash-value", 1, `(hash k: $1)`),
		tmpl("nt-template-unquote", 1, `(syntaxQuote (x (unquote $1)))`),
		tmpl("nt-template-array", 1, `(syntaxQuote [(unquote $1) y])`),
		tmpl("nt-template-splice", 1, `(syntaxQuote (x (unquote-splicing (list $1))))`),
		tmpl("nt-for-body", 1, `(begin (def res 0) (for [(def i 0) (< i 1) (set i (+ i 1))] (set res $1)) res)`),
		tmpl("nt-newscope-first", 1, `(newScope $1 (t 5 n))`),
		tmpl("nt-let-body-first", 1, `(let [q 1] $1 (t 5 n))`),
		tmpl("nt-cond-second-test", 1, `(cond false 1 $1 (t 6 1) (t 7 2))`),
		tmpl("nt-and-middle", 1, `(and 1 $1 (t 6 77))`),
		tmpl("nt-or-middle", 1, `(or false (not $1) (t 6 78))`),
		tmpl("nt-for-init", 1, `(begin (def res 0) (for [(def i $1) (< res 1) (set res (+ res 1))] (set gv i)) (list res n))`),
		tmpl("nt-for-test", 1, `(begin (def res 0) (for [(def i 0) (and (< i 1) $1) (set i (+ i 1))] (set res (+ res 1))) (list res n))`),
		tmpl("nt-for-step", 1, `(begin (def res 0) (for [(def i 0) (< i 1) (set i (+ 1 (begin $1 i)))] (set res (+ res 1))) (list res n))`),
		tmpl("nt-nested-argument", 1, `(list 0 (list (+ 1 (first (list $1)))))`),
		tmpl("nt-set-local", 1, `(begin (def lv 0) (set lv $1) (list lv n))`),
	}
}

func c09chainsOver(ctxs []gen.Ctx, depth int, prefix string, inner func(*T) *T, f func(name string, t *T)) {
	var rec func(d int, name string, wrap func(*T) *T)
	rec = func(d int, name string, wrap func(*T) *T) {
		if d == 0 {
			return
		}
		for _, cx := range ctxs {
			cx := cx
			nm := cx.Name
			if name != "" {
				nm = name + ">" + cx.Name
			}
			w := func(in *T) *T { return wrap(cx.Build([]*T{in})) }
			if d == 1 {
				f(prefix+nm, w(inner(Sym("CALL"))))
			}
			rec(d-1, nm, w)
		}
	}
	rec(depth, "", func(t *T) *T { return t })
}

func c09chains(depth int, f func(name string, t *T)) {
	ctxs := c09tailCtx()
	f("direct", Sym("CALL"))
	// non-tail positions, alone and under every tail context
	for _, nt := range c09nonTailCtx() {
		nt := nt
		f(nt.Name, nt.Build([]*T{Sym("CALL")}))
		for _, cx := range ctxs {
			f(cx.Name+">"+nt.Name, cx.Build([]*T{nt.Build([]*T{Sym("CALL")})}))
			f(nt.Name+">"+cx.Name, nt.Build([]*T{cx.Build([]*T{Sym("CALL")})}))
		}
	}
	// deeper nests of the scope-opening contexts only (scope bookkeeping of the jump)
	scopeCtx := []gen.Ctx{ctxs[3], ctxs[4], ctxs[5]}
	for d := depth + 1; d <= depth+2; d++ {
		c09chainsOver(scopeCtx, d, "deep:", func(t *T) *T { return t }, f)
	}
	var rec func(d int, name string, wrap func(*T) *T)
	rec = func(d int, name string, wrap func(*T) *T) {
		if d == 0 {
			return
		}
		for _, cx := range ctxs {
			cx := cx
			nm := cx.Name
			if name != "" {
				nm = name + ">" + cx.Name
			}
			w := func(inner *T) *T { return wrap(cx.Build([]*T{inner})) }
			f(nm, w(Sym("CALL")))
			rec(d-1, nm, w)
		}
	}
	rec(depth, "", func(t *T) *T { return t })
}

// c09callers: the tail-recursive function declared by defn and by the typed (func ...) form, called from inside other
// functions whose own parameters and locals carry the same names: the caller's variables are untouched by the callee's
// jumps and the value is the closed form.
func c09callers(c *engine.Ctx, only string) {
	ctxs := [][2]string{{"direct", "$1"}, {"cond-default", "(cond (== n -1) 0 $1)"}, {"cond-first", "(cond (> n 0) $1 0)"}, {"begin", "(begin (t n n) $1)"}, {"let", "(let [q n] $1)"},
		{"letseq", "(letseq [q n r q] $1)"}, {"newScope", "(newScope $1)"}, {"and", "(and true $1)"}, {"or", "(or false $1)"}, {"let>newScope", "(let [q n] (newScope $1))"}}
	decls := [][2]string{{"defn", "(defn f [n acc] BODY)"}, {"func-typed", "(func f [n:int64 acc:int64] [r:int64] BODY)"}, {"func-typed-return", "(func f [n:int64 acc:int64] [r:int64] (return BODY))"},
		{"defn-in-fn", "(defn mk [] (defn f [n acc] BODY) f) (def f (mk))"}}
	for _, k := range c09kinds() {
		if !k.sum || k.params != "[n acc]" {
			continue
		}
		for _, cx := range ctxs {
			for _, d := range decls {
				w := "CALLER|" + k.name + "|" + cx[0] + "|" + d[0]
				if !(only == "" && c.Mine() || only == w) {
					continue
				}
				c.Begin(w)
				body := "(cond (== n 0) acc " + strings.Replace(cx[1], "$1", k.call, 1) + ")"
				text := strings.Replace(d[1], "BODY", body, 1) +
					" (defn caller [n acc] (def r (f 3 0)) (list n acc r)) (defn caller2 [n] (let [r (f 3 0)] (+ n r))) (defn caller3 [n acc] (+ n (f 3 acc)))" +
					" (list (caller 10 20) (caller2 10) (f 4 0) (caller3 10 1))"
				tr := zy.NewTraced(true)
				zygo.VerifSetStepBudget(500000)
				tr.Run(layout(c09prelude(), 0))
				r := tr.Run(text)
				dp := tr.Env.VerifDepths()
				tr.Env.Close()
				const want = "((10 20 6) 16 10 17)"
				if r.Short() != want {
					c.Violation("caller", "C09/caller/"+d[0]+"/"+cx[0], w, fmt.Sprintf("%s gives %s, want %s", text, r, want))
				} else if dp.Data != 0 || dp.Scope != 1 || dp.Addr != 0 {
					c.Violation("not-at-rest", "C09/caller-not-at-rest/"+d[0], w, fmt.Sprintf("after %s: data=%d scope=%d addr=%d", text, dp.Data, dp.Scope, dp.Addr))
				}
				c.Outcome("caller|" + k.name + "|" + cx[0] + "|" + d[0] + "|" + r.Short())
			}
		}
	}
}

func init() {
	engine.Register(&engine.Check{
		ID:    "C09",
		Level: "exploration",
		Rule: "every composition of tail contexts {cond default arm, cond first arm, begin last, let, letseq, newScope, and, or, let shadowing the parameter} to nesting depth 2 (thorough 3, the depth-3 nests crossed with every third body kind) x 17 body kinds " +
			"(plain, local def, closure over parameter/local, mutating closure, helper call, variadic, lazy parameter, traced argument order): transparency vs the reference evaluator for depths 0,1,2,3,10; " +
			"stack high-water marks (sampled in a pre-call hook) equal for depths 10,60,300 (thorough: 10,100,1000 and 100000 for the accumulating kinds); the accumulating kinds declared by defn, by the typed (func ...) form (with and without return) and by a defn inside a function, under 10 tail contexts, called from three callers whose parameters and locals have the callee's names (closed-form value, stacks at rest); distinct_nontrivial = distinct (shape, depth, high-water, value) tuples",
		Assumptions: []string{
			"R1 has no tail-call optimisation and is the transparency oracle",
			"high-water marks are sampled at every function/builtin call (pre-call hook) through the verif accessor VerifDepths",
		},
		Run: func(c *engine.Ctx) {
			depth := 2
			if c.Thorough() {
				depth = 3
			}
			kinds := c09kinds()
			c09chains(depth, func(name string, t *T) {
				for ki, k := range kinds {
					if c.Expired() {
						return
					}
					// thorough: the depth-3 nests are crossed with every third body kind (rotating with the nest), the
					// shallower ones with all kinds
					if c.Thorough() && strings.Count(name, ">") >= 2 && !strings.HasPrefix(name, "deep:") && (ki+len(name))%3 != 0 {
						continue
					}
					if c.Mine() {
						c09one(c, name, t, k, c.Thorough())
					}
				}
			})
			c09callers(c, "")
			c.Note("bound", fmt.Sprintf("tail-context nesting depth %d, %d body kinds", depth, len(kinds)))
		},
		Replay: func(c *engine.Ctx, w string) {
			if strings.HasPrefix(w, "CALLER|") {
				c09callers(c, w)
				for i := range c.Viol {
					c.Viol[i].Key = "*"
				}
				return
			}
			// a witness is the program text; classify it again through both oracles
			_, forms := parseWitness(w)
			key := "replay"
			res := diffProgram(c, "C09", c09prelude(), forms, 0, progOpts{keyExtra: key, r1Depth: 2000, r1Fuel: 2000000, sugar: true})
			if res.tr != nil {
				d := res.tr.Env.VerifDepths()
				if res.impl.OK() && (d.Data != 0 || d.Scope != 1 || d.Addr != 0) {
					c.Violation("not-at-rest", "*", w, fmt.Sprintf("after a successful run the stacks are data=%d scope=%d addr=%d", d.Data, d.Scope, d.Addr))
				}
				res.tr.Env.Close()
			}
			// space: re-run the same shape at 10 and at the witness depth
			if n, ok := c09depthOf(forms); ok {
				r0, h0 := c09space(c, c09withDepth(forms, 10), key)
				r1, h1 := c09space(c, forms, key)
				if !r1.OK() {
					c.Violation("deep-run-failed", "", w, r1.String())
				} else if r0.OK() && h0 != h1 && n > 10 {
					c.Violation("space", "", w, fmt.Sprintf("depth 10: %s; depth %d: %s", h0, n, h1))
				}
			}
			// any violation reproduced counts for the recorded key
			for i := range c.Viol {
				c.Viol[i].Key = "*"
			}
			_ = strings.TrimSpace
		},
	})
}
