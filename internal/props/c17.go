package props

import (
	"fmt"
	"regexp"
	"strings"

	"github.com/glycerine/zygomys/v9/zygo"

	"verif/internal/engine"
	"verif/internal/explore"
	"verif/internal/zy"
)

// C17 — declared struct types are enforced on every write.

const c17decl = `(struct T [(field A: int64 e:0)])
(struct S [(field X: int64 e:0) (field N: string e:1) (field F: float64 e:2) (field B: bool e:3) (field L: ([]string) e:4) (field P: (* S) e:5) (field O: T e:6)])
(def t1 (T A: 1))
(def arr [1 2])
(def c (S X: 1))
(def pc0 (& c))
(def other (S X: 2))
(struct E [])
(def e1 (E))`

// declared kinds per struct version
var c17kinds = map[string]map[string]string{
	"S":  {"X": "int", "N": "string", "F": "float", "B": "bool", "L": "[]string", "P": "*S", "O": "T"},
	"S2": {"X": "string", "N": "string"}, // the redeclared S
	"T":  {"A": "int"},
}

type c17valT struct{ name, src string }

var c17vals = []c17valT{
	{"int", "5"}, {"str", `"s"`}, {"float", "2.5"}, {"bool", "true"}, {"nil", "nil"}, {"emptyslice", "[]"}, {"strslice", `["a"]`}, {"intslice", "[1]"},
	{"ptrS", "(& other)"}, {"ptrT", "(& t1)"}, {"instT", "(T A: 7)"}, {"instS", "other"}, {"plainhash", "(hash A: 1)"},
}

var c17fields = []string{"X", "N", "F", "B", "L", "P", "O", "Y"}

type c17opT struct {
	name string
	src  string
	// named acceptance cases of the property: these must succeed
	mustAccept bool
}

func c17ops() []c17opT {
	var ops []c17opT
	for _, f := range c17fields {
		for _, v := range c17vals {
			acc := (f == "L" && (v.name == "emptyslice" || v.name == "nil" || v.name == "strslice")) || (f == "P" && (v.name == "nil" || v.name == "ptrS"))
			ops = append(ops,
				c17opT{"hset/" + f + "/" + v.name, fmt.Sprintf("(hset c %s: %s)", f, v.src), acc},
				c17opT{"setdot/" + f + "/" + v.name, fmt.Sprintf("(set c.%s %s)", f, v.src), false},
				c17opT{"infix/" + f + "/" + v.name, fmt.Sprintf("{c.%s = %s}", f, v.src), acc},
				c17opT{"ctor/" + f + "/" + v.name, fmt.Sprintf("(def c (S X: 1 %s: %s))", f, v.src), false})
		}
	}
	for _, v := range c17vals {
		ops = append(ops,
			c17opT{"hset-strkey/" + v.name, fmt.Sprintf(`(hset c "X" %s)`, v.src), false},
			c17opT{"hset-intkey/" + v.name, fmt.Sprintf(`(hset c 5 %s)`, v.src), false},
			c17opT{"infix-strkey/" + v.name, fmt.Sprintf(`{c["X"] = %s}`, v.src), false},
			c17opT{"infix-strkey-new/" + v.name, fmt.Sprintf(`{c["Q"] = %s}`, v.src), false},
			c17opT{"nested-infix/" + v.name, fmt.Sprintf(`{c.O.A = %s}`, v.src), false},
			c17opT{"nested-set/" + v.name, fmt.Sprintf(`(set c.O.A %s)`, v.src), false},
			c17opT{"through-pointer-field/" + v.name, fmt.Sprintf(`(begin (def pc (& c)) (hset (* pc) X: %s))`, v.src), false},
			c17opT{"derefset-record/" + v.name, fmt.Sprintf(`(derefSet (& c) %s)`, v.src), false},
			c17opT{"derefset-newrecord/" + v.name, fmt.Sprintf(`(derefSet (& c) (S X: 4 N: %s))`, v.src), false},
			c17opT{"msgmap/" + v.name, fmt.Sprintf(`(def c (msgmap (quote S) (list X: %s)))`, v.src), false},
			c17opT{"mdef-field/" + v.name, fmt.Sprintf(`(hset c X: (first (list %s)))`, v.src), false},
		)
	}
	// decoding from JSON / msgpack text: well-typed, wrong-typed and undeclared members
	for i, j := range c17json {
		ops = append(ops, c17opT{fmt.Sprintf("unjson/%d", i), fmt.Sprintf("(def c (unjson rawj%d))", i), false},
			c17opT{fmt.Sprintf("unmsgpack/%d", i), fmt.Sprintf("(def c (unmsgpack rawm%d))", i), false})
		_ = j
	}
	// a struct declared without fields, later redeclared with one: the old instance keeps having none
	ops = append(ops, c17opT{"redeclare-E", `(struct E [(field big: bool e:0)])`, false},
		c17opT{"e1-hset", `(hset e1 big: true)`, false}, c17opT{"e1-infix", `{e1.big = true}`, false},
		c17opT{"e1-through-pointer", `(hset (* (& e1)) big: true)`, false})
	// the field-less struct takes no member at all, whatever the kind of key
	ops = append(ops, c17opT{"e1-hset-strkey", `(hset e1 "note" 5)`, false}, c17opT{"e1-hset-intkey", `(hset e1 7 "seven")`, false}, c17opT{"e1-infix-strkey", `{e1["other"] = 8}`, false},
		c17opT{"e1-hset-undeclared", `(hset e1 note: 5)`, false}, c17opT{"e1-hset-charkey", `(hset e1 'c' 5)`, false})
	ops = append(ops, c17opT{"give-O", `(hset c O: (T A: 3))`, true})
	// an index expression (a live selector into an array) written as a field value, and later legal writes to that array
	ops = append(ops, c17opT{"selector-value/hset", `(hset c X: (arrayidx arr [0]))`, false},
		c17opT{"selector-value/ctor", `(def c (S X: (arrayidx arr [0])))`, false},
		c17opT{"selector-value/infix", `{c.X = arr[1]}`, false},
		c17opT{"selector-value/msgmap", `(def c (msgmap (quote S) [(quote X) (arrayidx arr [0])]))`, false},
		c17opT{"array-element/string", `(aset arr 0 "oops")`, false},
		c17opT{"array-element/float-infix", `{arr[0] = 2.5}`, false},
		c17opT{"array-element/int", `(aset arr 0 9)`, false})
	// a pointer taken before any redeclaration, used afterwards
	ops = append(ops, c17opT{"derefset-oldptr/newdecl-shaped", `(derefSet pc0 (S X: "four" N: "n"))`, false},
		c17opT{"derefset-oldptr/olddecl-shaped", `(derefSet pc0 (S X: 4 N: "n"))`, false},
		c17opT{"hset-through-oldptr", `(hset (* pc0) X: "s")`, false},
		c17opT{"derefset-newptr/newdecl-shaped", `(derefSet (& c) (S X: "four" N: "n"))`, false})
	ops = append(ops, c17opT{"redeclare", `(struct S [(field X: string e:0) (field N: string e:1)])`, false},
		c17opT{"roundtrip-json", `(def c (unjson (json c)))`, false}, c17opT{"roundtrip-msgpack", `(def c (unmsgpack (msgpack c)))`, false},
		c17opT{"new-instance", `(def c (S))`, false}, c17opT{"new-instance-N", `(def c (S N: "n"))`, false})
	return ops
}

var c17json = []string{
	`{"Atype":"S", "X":3, "zKeyOrder":["X"]}`,
	`{"Atype":"S", "X":"wrong", "zKeyOrder":["X"]}`,
	`{"Atype":"S", "X":3, "Y":1, "zKeyOrder":["X","Y"]}`,
	`{"Atype":"S", "N":5, "X":1, "zKeyOrder":["X","N"]}`,
	`{"Atype":"S", "O":{"Atype":"T","A":"bad","zKeyOrder":["A"]}, "zKeyOrder":["O"]}`,
	`{"Atype":"S", "L":[1,2], "zKeyOrder":["L"]}`,
	`{"Atype":"S", "L":["a"], "N":"ok", "zKeyOrder":["N","L"]}`,
}

var c17ptr = regexp.MustCompile(`0x[0-9a-f]{6,}`)

func c17render(env *zygo.Zlisp, name string) string {
	r := zy.Eval(env, name)
	return c17ptr.ReplaceAllString(r.Short(), "0xPTR")
}

func c17kindOf(v zygo.Sexp) string {
	switch x := v.(type) {
	case *zygo.SexpInt:
		return "int"
	case *zygo.SexpStr:
		return "string"
	case *zygo.SexpFloat:
		return "float"
	case *zygo.SexpBool:
		return "bool"
	case *zygo.SexpSentinel:
		return "nil"
	case *zygo.SexpArray:
		if len(x.Val) == 0 {
			return "[]"
		}
		k := c17kindOf(x.Val[0])
		for _, e := range x.Val {
			if c17kindOf(e) != k {
				return "[]mixed"
			}
		}
		return "[]" + k
	case *zygo.SexpPointer:
		if h, ok := x.Target.(*zygo.SexpHash); ok {
			return "*" + h.TypeName
		}
		return "*?"
	case *zygo.SexpHash:
		return x.TypeName
	}
	return fmt.Sprintf("%T", v)
}

// c17inspect checks the instance bound to c against the definition in force
// when it was created. It returns "" or a description of the first breach.
func c17inspect(env *zygo.Zlisp, version string) string {
	r := zy.Eval(env, "c")
	h, ok := r.Sexp.(*zygo.SexpHash)
	if !ok {
		return "" // c is no longer a record (e.g. a failed decode bound something else): nothing to inspect
	}
	if h.TypeName != "S" {
		return ""
	}
	decl := c17kinds[version]
	seen := map[string]bool{}
	for _, k := range h.KeyOrder {
		sym, isSym := k.(*zygo.SexpSymbol)
		if !isSym {
			return fmt.Sprintf("instance has a member under the non-symbol key %s", k.SexpString(nil))
		}
		name := sym.Name()
		if seen[name] {
			return "field " + name + " is listed twice"
		}
		seen[name] = true
		want, declared := decl[name]
		if !declared {
			return "instance has the undeclared field " + name
		}
		val, err := h.HashGet(nil, k)
		if err != nil {
			return "field " + name + " is listed but has no value"
		}
		if sel, isSel := val.(zygo.Selector); isSel {
			// a live selector stored in the field: what a reader of the field gets is whatever it selects now
			if rhs, e := sel.RHS(env); e == nil && rhs != nil {
				val = rhs
			}
		}
		got := c17kindOf(val)
		if got == "nil" {
			continue
		}
		if got == "[]" && strings.HasPrefix(want, "[]") {
			continue
		}
		if got != want {
			return fmt.Sprintf("field %s is declared %s but holds a %s: %s", name, want, got, clipS(c17ptr.ReplaceAllString(val.SexpString(nil), "0xPTR"), 80))
		}
		if hv, isH := val.(*zygo.SexpHash); isH && hv.TypeName == "T" {
			// nested instance of T
			for _, kk := range hv.KeyOrder {
				s2, ok := kk.(*zygo.SexpSymbol)
				if !ok || s2.Name() != "A" {
					return "nested T has the member " + kk.SexpString(nil)
				}
				vv, _ := hv.HashGet(nil, kk)
				if k2 := c17kindOf(vv); k2 != "int" && k2 != "nil" {
					return "nested T.A holds a " + k2
				}
			}
		}
	}
	return ""
}

func c17run(c *engine.Ctx, ops []c17opT, hist []int, record bool) (string, bool) {
	var names []string
	for _, h := range hist {
		names = append(names, ops[h].name)
	}
	w := strings.Join(names, " ")
	if record {
		c.Begin(w)
	}
	env := zy.New(true)
	defer env.Close()
	zygo.VerifSetStepBudget(300000)
	for i, j := range c17json {
		env.AddGlobal(fmt.Sprintf("rawj%d", i), &zygo.SexpRaw{Val: []byte(j)})
	}
	if r := zy.Eval(env, c17decl); !r.OK() {
		panic("c17 declarations: " + r.String())
	}
	for i, j := range c17json {
		// the same data as msgpack bytes (converted with the library's own exported helpers)
		func() {
			defer func() { recover() }()
			g, err := zygo.JsonToGo([]byte(j))
			if err != nil {
				return
			}
			by, err := zygo.GoToMsgpack(g)
			if err == nil {
				env.AddGlobal(fmt.Sprintf("rawm%d", i), &zygo.SexpRaw{Val: by})
			}
		}()
	}
	version := "S" // definition in force when the instance bound to c was created
	current := "S"
	lastName := "start"
	for i, hi := range hist {
		op := ops[hi]
		before := c17render(env, "c")
		r := zy.Eval(env, op.src)
		after := c17render(env, "c")
		last := i == len(hist)-1
		if op.name == "redeclare" && r.OK() {
			current = "S2"
		}
		if strings.HasPrefix(op.src, "(def c ") && r.OK() {
			version = current
		}
		if strings.HasPrefix(op.name, "roundtrip") && r.OK() {
			version = current
		}
		// derefSet copies another instance's fields into this one: the instance keeps obeying the definition it was
		// created under (a payload made under another declaration of the same name has to be refused)
		if last && record {
			lastName = op.name
			cls := strings.SplitN(op.name, "/", 2)[0]
			viol := func(clause, detail string) {
				c.Violation(clause, "C17/"+clause+"/"+cls, w, detail+"\n  operation: "+op.src)
			}
			if r.Panic != "" {
				viol("panic", r.Panic)
			}
			if !r.OK() && before != after {
				viol("rejected-write-changed-instance", fmt.Sprintf("the operation failed (%s) but the instance changed from %s to %s", clipS(r.Err, 100), before, after))
			}
			if e1 := zy.Eval(env, "e1"); e1.OK() {
				if h, ok := e1.Sexp.(*zygo.SexpHash); ok && len(h.KeyOrder) > 0 {
					viol("invariant-empty-struct", fmt.Sprintf("e1 was created when E had no fields, now it is %s", e1.Short()))
				}
			}
			if breach := c17inspect(env, version); breach != "" {
				viol("invariant", fmt.Sprintf("after the operation (result %s) the instance is %s: %s", clipS(r.Short(), 40), after, breach))
			}
			if op.mustAccept && version == "S" && !r.OK() {
				viol("rejected-legal-value", fmt.Sprintf("nil / the empty slice / a matching value must be accepted here, got %s", r))
			}
		}
	}
	key := version + "|" + current + "|" + c17render(env, "c") + "|" + c17render(env, "t1") + "|" + c17render(env, "e1") + "|" + c17render(env, "(str E)")
	if record {
		c.Outcome(lastName + "|" + key)
	}
	return key, true
}

func init() {
	engine.Register(&engine.Check{
		ID:    "C17",
		Level: "model_checking",
		Rule: "explicit-state BFS over histories of writes to an instance of a declared struct S (fields int64, string, float64, bool, []string, *S, struct T): operations = 8 field names (7 declared + 1 undeclared) x 13 value kinds x 4 routes (hset, set with a dot path, infix dot assignment, construction) + non-symbol keys via hset and infix index (also on an instance of a field-less struct), nested dot paths, writes through a pointer, derefSet, msgmap, decoding 7 hand-written JSON and msgpack texts, json/msgpack round trips, redeclaration of S with other field types; depth 2 (thorough 3); " +
			"state key = definition versions + printed instance; invariant after every step: the instance has only declared fields (symbol keys, once each) and every non-nil value has the declared kind under the definition in force when the instance was created; a failed operation leaves the instance unchanged; nil/empty slice are accepted for slice and pointer fields",
		Assumptions: []string{"only the safety direction is judged (what must never be stored); acceptance is judged only for the cases the property names"},
		Run: func(c *engine.Ctx) {
			ops := c17ops()
			depth := 2
			if c.Thorough() {
				depth = 3
			}
			b := &explore.BFS{NOps: len(ops), Depth: depth, ShardLevel: 1, Step: func(h []int, record bool) (string, bool) {
				return c17run(c, ops, h, record)
			}}
			b.Run(c)
			c.Note("bound", fmt.Sprintf("%d operations, depth %d", len(ops), depth))
		},
		Replay: func(c *engine.Ctx, w string) {
			ops := c17ops()
			var hist []int
			for _, f := range strings.Fields(w) {
				for i, o := range ops {
					if o.name == f {
						hist = append(hist, i)
					}
				}
			}
			c17run(c, ops, hist, true)
			for i := range c.Viol {
				c.Viol[i].Key = "*"
			}
		},
	})
}
