package props

import (
	"fmt"

	"verif/internal/engine"
	"verif/internal/gen"
	. "verif/internal/ref"
)

// C02 — evaluation matches the reference semantics.

func c02prelude() []*T {
	return Parse(`(def a 5) (def b 0)
(defn f [x y] (t 91 (- x y)))
(defn g [x & r] (t 92 (+ x (len r))))
(defn fact [n] (cond (< n 2) 1 (* n (fact (- n 1)))))
(def arr [10 20 30])
(def hh (hash k: 1))`)
}

func p1(src string) *T { return Parse(src)[0] }

// subst replaces the symbols $1 $2 $3 in a parsed template by the holes.
func subst(t *T, h []*T) *T {
	if t.K == 'y' && len(t.S) == 2 && t.S[0] == '$' {
		return h[int(t.S[1]-'1')]
	}
	if t.K == 'y' && t.S == "#" { // a unique integer, numbered in text order by gen.Renumber
		return Int(gen.TID)
	}
	if len(t.L) == 0 {
		return t
	}
	c := &T{K: t.K, S: t.S, I: t.I, L: make([]*T, len(t.L))}
	for i, x := range t.L {
		c.L[i] = subst(x, h)
	}
	return c
}

func tmpl(name string, holes int, src string) gen.Ctx {
	t := p1(src)
	return gen.Ctx{Name: name, Holes: holes, Build: func(h []*T) *T { return subst(t, h) }}
}

// control contexts: where jump offsets, scopes and evaluation order live
func c02control() []gen.Ctx {
	return []gen.Ctx{
		tmpl("begin", 2, `(begin $1 $2)`),
		tmpl("newScope", 2, `(newScope $1 $2)`),
		tmpl("let", 2, `(let [a $1] $2)`),
		tmpl("let2", 3, `(let [a $1 x $2] $3)`),
		tmpl("letseq", 2, `(letseq [x $1 a x] $2)`),
		tmpl("cond", 3, `(cond $1 $2 $3)`),
		tmpl("cond2", 3, `(cond $1 1 $2 2 $3)`),
		tmpl("and", 2, `(and $1 $2)`),
		tmpl("or", 2, `(or $1 $2)`),
		tmpl("and3", 3, `(and $1 $2 $3)`),
		tmpl("or3", 3, `(or $1 $2 $3)`),
		tmpl("def", 1, `(def a $1)`),
		tmpl("set", 1, `(set a $1)`),
		tmpl("defc", 1, `(begin (def c $1) c)`),
		tmpl("setc", 2, `(begin (def c $1) (set c $2) c)`),
		tmpl("for", 1, `(for [(def i 0) (< i 2) (set i (+ i 1))] $1)`),
		tmpl("forsum", 2, `(begin (def s 0) (for [(def i 0) (< i 3) (set i (+ i 1))] $1 (set s (+ s i))) $2 s)`),
		tmpl("forcont", 2, `(begin (def s 0) (for [(def i 0) (< i 3) (set i (+ i 1))] (cond $1 (continue) $2) (set s (+ s 1))) s)`),
		tmpl("forbreak", 2, `(begin (def s 0) (for [(def i 0) (< i 3) (set i (+ i 1))] (cond $1 (break) $2) (set s (+ s 1))) s)`),
		tmpl("forletbreak", 2, `(begin (def s 0) (for [(def i 0) (< i 3) (set i (+ i 1))] (let [q i] (cond $1 (break) $2)) (set s (+ s 1))) s)`),
		tmpl("forlabbreak", 2, `(begin (def s 0) (for outer: [(def i 0) (< i 2) (set i (+ i 1))] (for [(def j 0) (< j 2) (set j (+ j 1))] (cond $1 (break outer:) $2) (set s (+ s 1)))) s)`),
		tmpl("forlabcont", 2, `(begin (def s 0) (for outer: [(def i 0) (< i 2) (set i (+ i 1))] (for [(def j 0) (< j 2) (set j (+ j 1))] (newScope (cond $1 (continue outer:) $2)) (set s (+ s 1)))) s)`),
		tmpl("fortest", 2, `(for [(def i 0) (and (< i 2) $1) (set i (+ i 1))] $2)`),
		tmpl("fnimm", 2, `((fn [x] $1) $2)`),
		tmpl("fnvar", 3, `((fn [x & r] (begin $1 (list x r))) $2 $3)`),
		tmpl("callf", 2, `(f $1 $2)`),
		tmpl("callf1", 1, `(f $1)`),
		tmpl("callg1", 1, `(g $1)`),
		tmpl("callg3", 3, `(g $1 $2 $3)`),
		tmpl("callzz", 1, `(zz $1)`),
		tmpl("calla", 1, `(a $1)`),
		tmpl("defnlocal", 2, `(begin (defn k [x] $1) (k $2))`),
		tmpl("rec-set-rhs", 1, `(begin (def c 0) (defn k [x] (cond (== x 0) $1 (set c (k (- x 1))))) (list (k 2) c))`),
		tmpl("rec-def-rhs", 1, `(begin (defn k [x] (cond (== x 0) $1 (def q (k (- x 1))))) (k 2))`),
		tmpl("rec-let-binding", 1, `(begin (defn k [x] (cond (== x 0) $1 (let [q (k (- x 1))] (+ q 1)))) (k 2))`),
		tmpl("rec-letseq-binding", 1, `(begin (defn k [x] (cond (== x 0) $1 (letseq [q (k (- x 1)) r q] (+ r 1)))) (k 2))`),
		tmpl("rec-and-first", 1, `(begin (defn k [x] (cond (== x 0) $1 (and (k (- x 1)) 5))) (k 2))`),
		tmpl("rec-cond-test", 1, `(begin (defn k [x] (cond (== x 0) $1 (cond (k (- x 1)) 8 9))) (k 2))`),
		tmpl("rec-array-elem", 1, `(begin (defn k [x] (cond (== x 0) $1 [(k (- x 1))])) (k 2))`),
		tmpl("rec-tail-in-let", 1, `(begin (defn k [x] (cond (== x 0) $1 (let [q x] (k (- q 1))))) (k 2))`),
		tmpl("rec-assert-form", 1, `(begin (def c 0) (defn k [x] (cond (== x 0) $1 (begin (set c (+ c 1)) (assert (k (- x 1)))))) (list (k 2) c))`),
		tmpl("rec-assert", 1, `(begin (def c 0) (defn k [x] (cond (== x 0) $1 (begin (set c (+ c 1)) (== 1 (k (- x 1)))))) (list (k 2) c))`),
		tmpl("map", 3, `(map (fn [x] $1) [$2 $3])`),
		tmpl("maplist", 2, `(map (fn [x] $1) (list $2 7))`),
		tmpl("apply", 2, `(apply f [$1 $2])`),
		tmpl("applyfn", 3, `(apply (fn [x y] $1) (list $2 $3))`),
	}
}

func c02data() []gen.Ctx {
	return []gen.Ctx{
		tmpl("+", 2, `(+ $1 $2)`),
		tmpl("-", 2, `(- $1 $2)`),
		tmpl("*", 2, `(* $1 $2)`),
		tmpl("/", 2, `(/ $1 $2)`),
		tmpl("<", 2, `(< $1 $2)`),
		tmpl("==", 2, `(== $1 $2)`),
		tmpl("not", 1, `(not $1)`),
		tmpl("fact", 1, `(fact $1)`),
		tmpl("arraylit", 2, `[$1 $2]`),
		tmpl("array", 2, `(array $1 $2)`),
		tmpl("list", 2, `(list $1 $2)`),
		tmpl("aget", 1, `(aget arr $1)`),
		tmpl("aset", 2, `(begin (aset arr $1 $2) arr)`),
		tmpl("first", 2, `(first (list $1 $2))`),
		tmpl("rest", 2, `(rest (list $1 $2))`),
		tmpl("cons", 2, `(cons $1 (list $2))`),
		tmpl("len", 2, `(len (list $1 $2))`),
		tmpl("concat", 2, `(concat (str $1) (str $2))`),
		tmpl("append", 1, `(append arr $1)`),
		tmpl("hash", 2, `(hash k: $1 j: $2)`),
		tmpl("hget", 1, `(hget (hash k: $1) k:)`),
		tmpl("hset", 1, `(begin (hset hh k: $1) (hget hh k:))`),
		tmpl("hgetdef", 1, `(hget hh j: $1)`),
	}
}

func c02leaves() []*T {
	return []*T{gen.T1(Int(1)), gen.T1(Int(0)), Sym("a"), Sym("b"), Sym("x"), Int(3), Sym("nil"), Call("fail", Int(0)), Sym("zz"), Str("s")}
}

func c02case(c *engine.Ctx, prelude []*T, t *T, style int) {
	t = gen.Renumber(t)
	res := diffProgram(c, "C02", prelude, []*T{t}, style, progOpts{})
	if res.tr != nil {
		res.tr.Env.Close()
	}
}

// recorded finding: a tail self-call is recognised by name, so a function
// that re-binds its own name locally and then calls it in tail position jumps
// to itself instead of calling the new binding.
var c02probes = []probe{
	{"C02/self-name-shadowed-tail-call", `(begin (defn k [x] (begin (defn k [x] (t 1 0)) (k 3))) (k (t 2 1)))`},
}

// c02fresh: a literal or constructor call written at a place that is evaluated more than once yields a fresh object
// every time; objects are shared exactly where the program shares them. Each program mutates one of the results and
// then looks at all of them.
var c02fresh = []string{
	`(begin (def h2 (hash)) (for [(def i 0) (< i 3) (set i (+ i 1))] (hset h2 i [0 0])) (aset (hget h2 0) 0 7) (list (hget h2 0) (hget h2 1) (hget h2 2)))`,
	`(begin (defn id1 [v] v) (defn mk [] (id1 [1 2])) (def p (mk)) (def q (mk)) (aset p 0 9) (list p q (mk)))`,
	`(begin (defn ap [x] (append [1 2 3] x)) (def p (ap 4)) (def q (ap 5)) (list p q (ap 6)))`,
	`(begin (def acc []) (for [(def i 0) (< i 3) (set i (+ i 1))] (set acc (append acc (list [0])))) (aset (first (aget acc 0)) 0 5) acc)`,
	`(begin (defn mk2 [] (list [0 0] "s")) (def p (mk2)) (aset (first p) 1 8) (list p (mk2)))`,
	`(begin (defn mk3 [] (array 0 0)) (def p (mk3)) (def q (mk3)) (aset p 0 1) (list p q))`,
	`(begin (defn mk4 [] (hash k: [1])) (def p (mk4)) (aset (hget p k:) 0 3) (list (hget p k:) (hget (mk4) k:)))`,
	`(begin (def shared [0]) (defn use [] (id2 shared)) (defn id2 [v] v) (aset (use) 0 4) (list shared (use)))`,
	`(begin (defn two [] (list (f 10 [1 2 3]) 0)) (defn f [x y] y) (def p (first (two))) (aset p 2 0) (list p (first (two))))`,
	`(begin (def rows []) (for [(def i 0) (< i 2) (set i (+ i 1))] (let [r (concat [i] [0])] (set rows (append rows r)))) (aset (aget rows 0) 1 6) rows)`,
	`(begin (defn cnt [] (len (append [] 1))) (list (cnt) (cnt) (cnt)))`,
	`(map (fn [x] (aset [0 0] 0 x)) [1 2])`,
	`(begin (def out []) (for [(def i 0) (< i 3) (set i (+ i 1))] (let [cell ["a" "b"]] (aset cell 0 i) (set out (append out cell)))) out)`,
	// self-calls of variadic functions with no, one and several rest arguments, in tail and in operand position
	`(begin (def cnt 2) (defn drain [& xs] (cond (== cnt 0) (len xs) (begin (set cnt (- cnt 1)) (drain)))) (list (drain 7 8 9) (begin (set cnt 2) (+ 100 (drain 7 8 9)))))`,
	`(begin (def cnt 3) (defn grow [a & xs] (cond (== cnt 0) (list a xs) (begin (set cnt (- cnt 1)) (grow (+ a 1) a cnt)))) (grow 0))`,
	`(begin (def cnt 2) (defn nul [& xs] (cond (== cnt 0) (list (len xs) 5) (begin (set cnt (- cnt 1)) (nul)))) (list 1 (nul 4 4) 2))`,
	`(begin (def cnt 2) (defn one [a & xs] (cond (== cnt 0) (list a (len xs)) (begin (set cnt (- cnt 1)) (one 9)))) [(one 1 2 3) (begin (set cnt 1) (one 5 6))])`,
}

func init() {
	engine.Register(&engine.Check{
		ID:    "C02",
		Level: "exploration",
		Rule: "programs of the core language enumerated from one-/two-/three-hole contexts (control forms, calls, data operations) over a leaf pool " +
			"(traced host calls with unique ids, variables, literals, a failing host call, an unbound name): all depth-1 trees in all 6 layout styles, all context chains of length 2 " +
			"(thorough: length 3 over the control contexts, full depth-2 trees over a reduced set), plus 13 programs in which a literal or constructor call is evaluated repeatedly and one result is then mutated and 4 programs with self-calls of variadic functions passing no / some rest arguments; each program is evaluated on a fresh interpreter and by the reference evaluator R1; " +
			"value, error class and host-call trace are compared; distinct_nontrivial = distinct (shape, outcome, trace) triples among programs that make a host call or raise an error",
		Assumptions: []string{
			"R1 (internal/ref/r1.go) is the specification: textbook lexical scopes, left-to-right single evaluation after the callee, short-circuit forms return the last arm evaluated",
			"programs R1 declines (re-def with another type, float arithmetic beyond /, ordering of non-integers ...) are counted as skipped_unmodelled and not judged",
			"error text is not compared, except that a host-raised error must be the one reported",
		},
		Run: func(c *engine.Ctx) {
			prelude := c02prelude()
			runProbes(c, "C02", prelude, c02probes)
			ctl, data := c02control(), c02data()
			all := append(append([]gen.Ctx{}, ctl...), data...)
			leaves := c02leaves()
			n := int64(0)
			// (1) depth-1 trees, every layout style
			gen.EnumFull(all, leaves, 1, func(t *T) bool {
				for st := 0; st < nStyles; st++ {
					if c.Mine() {
						c02case(c, prelude, t, st)
					}
				}
				return !c.Expired()
			})
			c.Count("programs_depth1_all_styles", 0)
			// (2) chains of length 2 over everything, style round-robin
			sib := []*T{gen.T1(Int(1)), gen.T1(Int(0))}
			gen.EnumChains(all, leaves, sib, 2, func(t *T) bool {
				n++
				if c.Mine() {
					c02case(c, prelude, t, int(n%nStyles))
				}
				return !c.Expired()
			})
			if c.Thorough() {
				// (3) chains of length 3 over the control contexts
				gen.EnumChains(ctl, leaves, sib[:1], 3, func(t *T) bool {
					n++
					if c.Mine() {
						c02case(c, prelude, t, int(n%nStyles))
					}
					return !c.Expired()
				})
				// (4) full depth-2 trees over a reduced context set and leaf pool
				red := []gen.Ctx{ctl[0], ctl[2], ctl[5], ctl[7], ctl[8], ctl[11], ctl[12], ctl[15], ctl[18], ctl[23], ctl[25], data[0]}
				gen.EnumFull(red, []*T{gen.T1(Int(1)), gen.T1(Int(0)), Sym("a")}, 2, func(t *T) bool {
					n++
					if c.Mine() {
						c02case(c, prelude, t, int(n%nStyles))
					}
					return !c.Expired()
				})
			}
			// (5) literals and constructors evaluated repeatedly, then mutated
			for _, src := range c02fresh {
				if c.Mine() {
					res := diffProgram(c, "C02", nil, Parse(src), 0, progOpts{keyExtra: "fresh-objects"})
					if res.tr != nil {
						res.tr.Env.Close()
					}
					if res.skipped {
						c.Count("fresh_object_programs_not_modelled", 1)
					}
				}
			}
			c.Note("bound", fmt.Sprintf("contexts=%d leaves=%d; depth-1 full x %d styles; chains length 2 (thorough: + length 3 over %d control contexts, full depth 2 over 12 contexts x 3 leaves)", len(all), len(leaves), nStyles, len(ctl)))
		},
		Replay: func(c *engine.Ctx, w string) {
			for _, src := range c02fresh {
				if witnessOf(0, nil, Parse(src)) == w {
					replayProgram(c, "C02", nil, w, nil, progOpts{keyExtra: "fresh-objects"})
					return
				}
			}
			replayProgram(c, "C02", c02prelude(), w, c02probes, progOpts{})
		},
	})
}
