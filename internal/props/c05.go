package props

import (
	"fmt"
	"strconv"
	"strings"

	"github.com/glycerine/zygomys/v9/zygo"

	"verif/internal/engine"
	"verif/internal/gen"
	. "verif/internal/ref"
	"verif/internal/zy"
)

// C05 — errors are contained. Deviation-bounded exploration of fault points:
// the default run counts the calls of the host function h; then for every k
// the program is re-run on a fresh interpreter with the k-th call failing
// (returning an error, or panicking inside the builtin). After the failure
// the interpreter must be at rest and a battery of follow-up evaluations must
// give what the reference evaluator gives after the same fault.

var c05battery = []string{
	`(+ 1 2)`, `a`, `b`, `c`, `s`, `i`, `x`, `arr`, `(hget hh k:)`, `(f 10 3)`, `(g 1 2)`, `(fact 3)`, `(k 1)`,
	`(begin (defn nw [q] (+ q 1)) (nw 1))`,
	`(begin (def z 0) (for [(def i 0) (< i 5) (set i (+ i 1))] (cond (== i 2) (break) nil) (set z (+ z 1))) z)`,
	`(let [a 1] (newScope (+ a 1)))`,
	`(pz)`,
	`(pz)`,
	``,
}

func c05leaves() []*T {
	return []*T{gen.H1(Int(1)), gen.H1(Int(0)), Sym("a"), Int(3)}
}

func c05extraCtx() []gen.Ctx {
	return []gen.Ctx{
		tmpl("lazy-force", 1, `((fn [#z] (force #z)) $1)`),
		tmpl("lazy-force2", 1, `((fn [#z] (list (force #z) (force #z))) $1)`),
		tmpl("template-unquote", 1, `(syntaxQuote (a (unquote $1) b))`),
		tmpl("template-splice", 1, `(syntaxQuote [1 (unquote (list $1 2))])`),
		tmpl("lazy-closure", 1, `(begin (def pz ((fn [#z] (fn [] (force #z))) $1)) (pz))`),
		tmpl("lazy-closure-twice", 1, `(begin (def pz ((fn [#z] (fn [] (force #z))) $1)) (list (pz) (pz)))`),
		tmpl("fn-in-for", 1, `(begin (defn k [x] $1) (for [(def i 0) (< i 2) (set i (+ i 1))] (k i)) a)`),
		tmpl("deep-call", 1, `(begin (defn k [x] (cond (== x 0) $1 (+ 1 (k (- x 1))))) (k 3))`),
		tmpl("tail-deep", 1, `(begin (defn k [x] (cond (== x 0) $1 (k (- x 1)))) (k 3))`),
		tmpl("let-in-for-in-fn", 1, `((fn [x] (for [(def i 0) (< i 2) (set i (+ i 1))] (let [q i] (newScope $1)))) 1)`),
		tmpl("def-after", 2, `(begin (def c $1) (def s $2) (list c s))`),
		tmpl("aset-then", 1, `(begin (aset arr 0 77) $1 (aset arr 1 88))`),
		tmpl("hset-then", 1, `(begin (hset hh k: 5) $1 (hset hh k: 6))`),
	}
}

type c05obs struct {
	res  string
	rest string
	batt []string
}

// run on the implementation: fresh interpreter, fault at k (0 = none)
func c05impl(forms []*T, k int, panicKind bool, secondFault int) (zy.Res, []string, zygo.VerifDepths, []string, int) {
	tr := zy.NewTraced(false)
	defer tr.Env.Close()
	zygo.VerifSetStepBudget(500000)
	pr := tr.Run(layout(c02prelude(), 0))
	if !pr.OK() {
		panic("prelude failed: " + pr.String())
	}
	tr.Trace = nil
	tr.HCalls = 0
	tr.FailAt = k
	tr.PanicKind = panicKind
	res := tr.Run(layout(forms, 0))
	d := tr.Env.VerifDepths()
	trace := tr.Trace
	n := tr.HCalls
	tr.FailAt = 0
	var batt []string
	for bi, b := range c05battery {
		if secondFault == bi+1 {
			// second deviation: a failing evaluation in between
			tr.Run(`(begin (def c2 1) (fail 0))`)
		}
		r := tr.Run(b)
		batt = append(batt, r.Short())
	}
	return res, trace, d, batt, n
}

func c05model(forms []*T, k int, secondFault int) (Outcome, []string, string) {
	r1 := NewR1()
	if _, un := r1.RunProgram(c02prelude()); un != "" {
		panic(un)
	}
	r1.Trace = nil
	r1.FailAt = k
	mo, un := r1.RunProgram(forms)
	if un != "" {
		return mo, nil, un
	}
	r1.FailAt = 0
	var batt []string
	for bi, b := range c05battery {
		if secondFault == bi+1 {
			r1.RunProgram(Parse(`(begin (def c2 1) (fail 0))`))
		}
		o, un := r1.RunProgram(Parse(b))
		if un != "" {
			return mo, nil, "battery: " + un
		}
		if o.Err != nil {
			batt = append(batt, "ERR")
		} else {
			batt = append(batt, o.Val)
		}
	}
	return mo, batt, ""
}

func c05case(c *engine.Ctx, t *T, thorough bool) {
	t = gen.Renumber(t)
	forms := []*T{t}
	// default run: count fault points
	mo0, _, un := c05model(forms, 0, 0)
	if un != "" {
		c.Count("skipped_unmodelled", 1)
		return
	}
	_ = mo0
	r1n := NewR1()
	r1n.RunProgram(c02prelude())
	r1n.RunProgram(forms)
	n := r1n.HCalls
	sk := shapeKey(forms, 3)
	for k := 0; k <= n; k++ {
		for _, pk := range []bool{false, true} {
			if k == 0 && pk {
				continue
			}
			seconds := []int{0}
			if thorough && k > 0 {
				seconds = []int{0, 2, 10}
			}
			for _, sf := range seconds {
				w := fmt.Sprintf("%d|%v|%d|%s", k, pk, sf, t.Text())
				c.Begin(w)
				mo, mbatt, un := c05model(forms, k, sf)
				if un != "" {
					c.Count("skipped_unmodelled", 1)
					continue
				}
				res, trace, d, batt, _ := c05impl(forms, k, pk, sf)
				viol := func(clause, detail string) {
					c.Violation(clause, "C05/"+clause+"/"+sk, w, detail+"\n  program: "+t.Text())
				}
				mt, it := strings.Join(mo.Trace, ","), strings.Join(trace, ",")
				switch {
				case res.Panic != "":
					viol("panic", res.Panic)
				case mo.Err != nil && res.Err == "":
					viol("error-swallowed", fmt.Sprintf("fault at host call %d: the reference raises %v, the interpreter returned %s", k, mo.Err, res))
				case mo.Err == nil && res.Err != "":
					viol("unexpected-error", fmt.Sprintf("reference value %s, interpreter error %s", mo.Val, res.Err))
				case mo.Err != nil && mo.Err.Class == "user" && !strings.Contains(res.Err, "INJECTED"):
					viol("error-identity", fmt.Sprintf("the injected error was replaced by: %s", res.Err))
				case mo.Err == nil && res.Val != mo.Val:
					viol("value", fmt.Sprintf("reference %s, interpreter %s", mo.Val, res.Val))
				}
				if mt != it && res.Panic == "" {
					viol("trace", fmt.Sprintf("reference [%s] interpreter [%s]", mt, it))
				}
				if d.Data != 0 || d.Scope != 1 || d.Addr != 0 || d.Loop != 0 {
					viol("not-at-rest", fmt.Sprintf("after the evaluation (fault at %d): data=%d scope=%d addr=%d loop=%d", k, d.Data, d.Scope, d.Addr, d.Loop))
				}
				for i := range batt {
					if batt[i] != mbatt[i] {
						viol("followup", fmt.Sprintf("after a fault at host call %d, follow-up %q gives %s; the reference (same program, same fault) gives %s", k, c05battery[i], batt[i], mbatt[i]))
						break
					}
				}
				if k > 0 {
					c.Outcome(sk + "|" + fmt.Sprint(k, pk) + "|" + it + "|" + strings.Join(batt, ";"))
				} else {
					c.Trivial()
				}
			}
		}
	}
}

// ---- statically placed failures: malformed nested forms, parse errors

var c05malformed = []string{`(let)`, `(cond 1 2)`, `(for [1])`, `(def)`, `(fn)`, `(defn q)`, `(break 1 2)`, `(let [a] a)`, `(letseq [1 2] 3)`, `(newScope (let))`, `(continue 1 2)`, `(mdef)`, `(assert)`, `(macexpand)`}

func c05static(c *engine.Ctx, ctxs []gen.Ctx) {
	// every malformed form in every hole of every context; the other holes hold a traced call
	for _, cx := range ctxs {
		for hole := 0; hole < cx.Holes; hole++ {
			for _, m := range c05malformed {
				if !c.Mine() {
					continue
				}
				h := make([]*T, cx.Holes)
				for i := range h {
					h[i] = gen.H1(Int(1))
				}
				h[hole] = p1(m)
				t := gen.Renumber(cx.Build(h))
				c05staticCase(c, "S|"+t.Text(), t.Text(), cx.Name+"/"+m)
			}
		}
	}
	// parse errors after complete forms
	for _, txt := range []string{`(def c 1) (+ 1`, `(def c 1) )`, `(def c 1) "abc`, `(def c 1) 1e`, `(def c 1) [1 2`, `(def c 1) (h 1 1) 'ab'`, `(def c 1) #`, "(def c 1) (quote \\x)",
		// unfinished inside a construct nested two or more levels deep (the suspended parse has to unwind through several frames)
		`(def c 1) (defn f [a b`, `(def c 1) (let [a 1`, `(def c 1) (+ 1 (`, "(def c 1) (list `raw", `(def c 1) (a /* c`, `(def c 1) ((`, `(def c 1) [[`, `(def c 1) (list 1 [2 3`,
		`(def c 1) (f {a`, `(def c 1) {a = [1`, `(def c 1) (list "abc`, `(def c 1) ^(a ~(b`, `(def c 1) (hash a: [1 (`, `(def c 1) {a = (f [`, `(def c 1) (((`} {
		if c.Mine() {
			c05staticCase(c, "P|"+txt, txt, "parse/"+txt)
		}
	}
}

// c05hostCases: failures of evaluations the host makes through the Go API while the interpreter is at rest
// (SourceStream of a text that fails at run time / at compile time / at parse time; Apply with the wrong number of
// arguments, of a function that fails, of a builtin that fails; LoadString+Run of a failing text).
func c05hostCases(c *engine.Ctx, only string) {
	type hostOp struct {
		name string
		run  func(tr *zy.Traced) error
	}
	apply := func(fname string, args ...int64) func(tr *zy.Traced) error {
		return func(tr *zy.Traced) error {
			obj, ok := tr.Env.FindObject(fname)
			fn, isFn := obj.(*zygo.SexpFunction)
			if !ok || !isFn {
				return fmt.Errorf("harness: %s is not a function", fname)
			}
			var as []zygo.Sexp
			for _, a := range args {
				as = append(as, &zygo.SexpInt{Val: a})
			}
			_, err := tr.Env.Apply(fn, as)
			return err
		}
	}
	source := func(text string) func(tr *zy.Traced) error {
		return func(tr *zy.Traced) error { return tr.Env.SourceStream(strings.NewReader(text + "\n")) }
	}
	loadrun := func(text string) func(tr *zy.Traced) error {
		return func(tr *zy.Traced) error {
			if err := tr.Env.LoadString(text + "\n"); err != nil {
				return err
			}
			_, err := tr.Env.Run()
			return err
		}
	}
	ops := []hostOp{
		{"source-runtime-failure", source(`(def loaded 1) (fail 0) (def never 1)`)},
		{"source-runtime-failure-in-function", source(`(def loaded 1) (f 1 (fail 0))`)},
		{"source-compile-failure", source(`(def loaded 1) (let)`)},
		{"source-parse-failure", source(`(def loaded 1) (+ 1`)},
		{"source-unbound", source(`(def loaded 1) (undefinedfn 3)`)},
		{"apply-too-many-arguments", apply("f", 1, 2, 3)},
		{"apply-too-few-arguments", apply("f", 1)},
		{"apply-function-that-fails", apply("failing")},
		{"apply-builtin-that-fails", apply("first", 1)},
		{"loadrun-runtime-failure", loadrun(`(def loaded 1) (fail 0)`)},
		{"loadrun-compile-failure", loadrun(`(def loaded 1) (let)`)},
	}
	for _, op := range ops {
		w := "HOST|" + op.name
		if !(only == "" && c.Mine() || only == w) {
			continue
		}
		c.Begin(w)
		tr := zy.NewTraced(false)
		zygo.VerifSetStepBudget(500000)
		tr.Run(layout(c02prelude(), 0))
		tr.Run(`(defn failing [] (fail 0)) (def counter 0) (defn bump [] (set counter (+ counter 1)))`)
		tr.Trace = nil
		viol := func(clause, detail string) {
			c.Violation(clause, "C05/host-"+clause+"/"+op.name, w, detail)
		}
		var err error
		var pan string
		func() {
			defer func() {
				if x := recover(); x != nil {
					pan = fmt.Sprint(x)
				}
			}()
			err = op.run(tr)
		}()
		if pan != "" {
			viol("panic", pan)
			tr.Env.Close()
			continue
		}
		if err == nil {
			viol("error-swallowed", "the failing host-level evaluation reported no error")
		}
		d := tr.Env.VerifDepths()
		if d.Data != 0 || d.Scope != 1 || d.Addr != 0 || d.Loop != 0 {
			viol("not-at-rest", fmt.Sprintf("data=%d scope=%d addr=%d loop=%d", d.Data, d.Scope, d.Addr, d.Loop))
		}
		for _, p := range [][2]string{{`(bump)`, "1"}, {`counter`, "1"}, {`(+ 1 2)`, "3"}, {`(f 10 3)`, "7"}, {`(bump)`, "2"}, {`(fact 3)`, "6"}, {``, "nil"},
			{`(begin (def z 0) (for [(def i 0) (< i 5) (set i (+ i 1))] (cond (== i 2) (break) nil) (set z (+ z 1))) z)`, "2"}, {`counter`, "2"}} {
			var r zy.Res
			func() {
				defer func() {
					if x := recover(); x != nil {
						r = zy.Res{Panic: fmt.Sprint(x)}
					}
				}()
				r = tr.Run(p[0])
			}()
			if r.Short() != p[1] {
				viol("followup", fmt.Sprintf("follow-up %q gives %s, want %s", p[0], r, p[1]))
				break
			}
		}
		tr.Env.Close()
		c.Outcome("host|" + op.name)
	}
}

// c05repeated: the same failure many times over on one interpreter (cleared after each, as the REPL does), then the
// battery: nothing may accumulate across failed evaluations.
func c05repeated(c *engine.Ctx, only string) {
	big := func(last string) string {
		var sb strings.Builder
		sb.WriteString("(list")
		for i := 0; i < 120; i++ {
			sb.WriteString(" " + strconv.Itoa(i))
		}
		return sb.String() + " " + last + ")"
	}
	type rep struct {
		name, form string
		times      int
	}
	reps := []rep{
		{"compare-long-lists", "(== " + big("1") + " " + big(`"a"`) + ")", 400}, {"compare-kinds", `(< 1 "a")`, 2000}, {"compare-arrays", `(== [1 [2 [3 "x"]]] [1 [2 [3 4]]])`, 2000},
		{"host-error", `(f 1 (fail 0))`, 500}, {"unbound", `(undefinedfn 1)`, 500}, {"compile-error", `(let)`, 500}, {"type-error", `(+ 1 "a")`, 500}, {"index", `(aget [1] 5)`, 500},
		{"missing-key", `(hget (hash) a:)`, 500}, {"in-loop", `(for [(def i 0) (< i 3) (set i (+ i 1))] (let [q i] (fail 0)))`, 500}, {"parse-error", `(+ 1 (`, 300},
		{"self-containing-json", `(begin (def cy [0]) (aset cy 0 cy) (json cy))`, 3}, {"self-containing-compare", `(begin (def cy [0]) (aset cy 0 cy) (== cy cy))`, 3},
		{"deep-recursion", `(begin (defn dr [n] (+ 1 (dr (+ n 1)))) (dr 0))`, 3},
	}
	for _, rp := range reps {
		w := "REP|" + rp.name
		if !(only == "" && c.Mine() || only == w) {
			continue
		}
		c.Begin(w)
		tr := zy.NewTraced(false)
		tr.Run(layout(c02prelude(), 0))
		tr.Run(`(def counter 0) (defn bump [] (set counter (+ counter 1)))`)
		viol := func(clause, detail string) { c.Violation(clause, "C05/repeated-"+clause+"/"+rp.name, w, detail) }
		bad := false
		for i := 0; i < rp.times && !bad; i++ {
			zygo.VerifSetStepBudget(200000)
			r := tr.Run(rp.form)
			c.Beat()
			switch {
			case r.Panic != "":
				viol("panic", fmt.Sprintf("repetition %d: %s", i+1, r.Panic))
				bad = true
			case r.Err == "":
				viol("error-swallowed", fmt.Sprintf("repetition %d of %s returned %s", i+1, clipS(rp.form, 80), r))
				bad = true
			}
			tr.Env.Clear()
		}
		zygo.VerifSetStepBudget(500000)
		d := tr.Env.VerifDepths()
		if d.Data != 0 || d.Scope != 1 || d.Addr != 0 || d.Loop != 0 {
			viol("not-at-rest", fmt.Sprintf("after %d failures: data=%d scope=%d addr=%d loop=%d", rp.times, d.Data, d.Scope, d.Addr, d.Loop))
		}
		for _, p := range [][2]string{{`(== (list 1 2 (list 3)) (list 1 2 (list 3)))`, "true"}, {`(< 1 2)`, "true"}, {`(== [1 [2]] [1 [2]])`, "true"}, {`(bump)`, "1"}, {`(+ 1 2)`, "3"}, {`(f 10 3)`, "7"}, {`(fact 3)`, "6"},
			{`(raw2str (json (hash a: [1 [2]])))`, `"{\"Atype\":\"hash\", \"a\":[1, [2]], \"zKeyOrder\":[\"a\"]}"`}, {``, "nil"},
			{`(begin (def z 0) (for [(def i 0) (< i 5) (set i (+ i 1))] (cond (== i 2) (break) nil) (set z (+ z 1))) z)`, "2"}} {
			r := tr.Run(p[0])
			if r.Short() != p[1] {
				viol("followup", fmt.Sprintf("after %d repetitions of the failing %s, %q gives %s, want %s", rp.times, clipS(rp.form, 60), p[0], r, p[1]))
				break
			}
		}
		tr.Env.Close()
		c.Outcome("rep|" + rp.name)
	}
}

// c05failedDecl: a declaration that fails declares nothing. For every kind of declaration x failing body x prior
// state of the name (unbound, a macro, a function), the follow-ups on that interpreter must give exactly what they
// give on an interpreter on which the failing declaration was never evaluated.
func c05failedDecl(c *engine.Ctx, only string) {
	decls := [][2]string{
		{"defmac-let", "(defmac NAME [x] (let [y] ^(* 2 ~x)))"}, {"defmac-empty-let", "(defmac NAME [x] (let))"}, {"defmac-bad-args", "(defmac NAME [x x2 (] 1)"},
		{"defn-empty-let", "(defn NAME [x] (let))"}, {"defn-bad-cond", "(defn NAME [x] (cond 1))"}, {"def-failing-value", "(def NAME (fail 0))"},
		{"def-unbound-value", "(def NAME (undefinedfn 1))"}, {"func-empty-let", "(func NAME [a:int64] [r:int64] (let))"}, {"fn-bound", "(def NAME (fn [x] (let)))"},
		{"package-body", "(def NAME (package \"pp\" { (let) }))"}, {"set-failing", "(set NAME (fail 0))"}, {"mdef", "(mdef NAME other (list 1))"},
	}
	priors := [][2]string{{"unbound", ""}, {"macro", "(defmac NAME [x] ^(+ ~x ~x))"}, {"function", "(defn NAME [x] (+ x 100))"}, {"value", "(def NAME 55)"}}
	follow := [][2]string{{"call", "(NAME 4)"}, {"expand", "(str (macexpand (NAME 4)))"}, {"value", "(str NAME)"}, {"defn-then-call", "(defn NAME [x] (* 3 x)) (NAME 2)"},
		{"defmac-then-call", "(defmac NAME [x] ^(- ~x 1)) (NAME 2)"}, {"def-then-read", "(def NAME 9) NAME"}, {"let-local", "(let [NAME 3] (+ NAME 1))"}}
	for _, d := range decls {
		for _, p := range priors {
			for _, f := range follow {
				w := "DECL|" + d[0] + "|" + p[0] + "|" + f[0]
				if !(only == "" && c.Mine() || only == w) {
					continue
				}
				c.Begin(w)
				name := "zq" // one name per case: macros are registered per interpreter, nothing is shared
				sub := func(t string) string { return strings.ReplaceAll(t, "NAME", name) }
				run := func(withDecl bool) (string, bool) {
					tr := zy.NewTraced(false)
					defer tr.Env.Close()
					zygo.VerifSetStepBudget(200000)
					tr.Run(layout(c02prelude(), 0))
					if p[1] != "" {
						tr.Run(sub(p[1]))
					}
					failed := true
					if withDecl {
						r := tr.Run(sub(d[1]))
						failed = r.Err != "" && r.Panic == ""
						if r.Panic != "" {
							c.Violation("panic", "C05/failed-decl-panic/"+d[0], w, r.Panic)
						}
						tr.Env.Clear()
					}
					r := tr.Run(sub(f[1]))
					tr.Env.Clear()
					r2 := tr.Run("(+ 1 2)")
					return r.String() + " ; then (+ 1 2) = " + r2.Short(), failed
				}
				with, failed := run(true)
				if !failed {
					c.Count("failed_decl_did_not_fail_not_judged", 1)
					c.Outcome("decl|" + d[0] + "|ok")
					continue
				}
				without, _ := run(false)
				if with != without {
					c.Violation("followup", "C05/failed-decl/"+d[0]+"/"+p[0], w, fmt.Sprintf("prior state %q, then the failing %s, then %s gives %s; without the failing declaration it gives %s", sub(p[1]), sub(d[1]), sub(f[1]), with, without))
				}
				c.Count("failed_decl_cases", 1)
				c.Outcome("decl|" + d[0] + "|" + p[0] + "|" + f[0] + "|" + clipS(with, 40))
			}
		}
	}
}

func c05staticCase(c *engine.Ctx, w, text, key string) {
	c.Begin(w)
	tr := zy.NewTraced(false)
	defer tr.Env.Close()
	zygo.VerifSetStepBudget(500000)
	tr.Run(layout(c02prelude(), 0))
	tr.Trace = nil
	res := tr.Run(text)
	d := tr.Env.VerifDepths()
	viol := func(clause, detail string) {
		c.Violation(clause, "C05/static-"+clause+"/"+key, w, detail+"\n  text: "+text)
	}
	if res.Panic != "" {
		viol("panic", res.Panic)
		return
	}
	if res.Err == "" {
		viol("error-swallowed", "a malformed nested form / unparsable text evaluated to "+res.String())
	}
	if d.Data != 0 || d.Scope != 1 || d.Addr != 0 || d.Loop != 0 {
		viol("not-at-rest", fmt.Sprintf("data=%d scope=%d addr=%d loop=%d", d.Data, d.Scope, d.Addr, d.Loop))
	}
	// follow-ups that do not depend on how far the failing form got
	for _, p := range [][2]string{{`(+ 1 2)`, "3"}, {`(f 10 3)`, "7"}, {`(fact 3)`, "6"}, {``, "nil"},
		{`(begin (def z 0) (for [(def i 0) (< i 5) (set i (+ i 1))] (cond (== i 2) (break) nil) (set z (+ z 1))) z)`, "2"},
		{`(begin (defn nw [q] (+ q 1)) (nw 1))`, "2"}} {
		r := tr.Run(p[0])
		if r.Short() != p[1] {
			viol("followup", fmt.Sprintf("follow-up %q gives %s, want %s", p[0], r, p[1]))
			break
		}
	}
	c.Outcome("static|" + key + "|" + res.Short())
}

func init() {
	engine.Register(&engine.Check{
		ID:    "C05",
		Level: "fault_enumeration",
		Rule: "fault points = calls of the host function h inside programs of the C02 grammar (+ lazy forcing, deep/tail recursion, loops in functions): default run counts N calls, then every k<=N x {returned error, Go panic in the builtin} is re-run on a fresh interpreter " +
			"(thorough: + a second failing evaluation during the follow-ups); oracle = reference evaluator run with the same fault: result, trace, stacks at rest, and a 19-item follow-up battery; " +
			"plus statically placed failures: 14 malformed forms in every hole of every context, 23 unparsable texts (8 after complete forms, 15 left unfinished two or more brackets deep), and 11 failing evaluations made by the host through the Go API (SourceStream, Apply, LoadString+Run) followed by a 9-item battery; 14 failing forms each repeated 3..2000 times on one interpreter, then a 10-item battery (nothing accumulates across failures); 12 failing declarations x 4 prior states of the name x 7 follow-ups, judged against an interpreter that never saw the failing declaration (a failed declaration declares nothing); distinct_nontrivial = distinct (shape, fault, trace, battery) tuples with k>0",
		Assumptions: []string{"R1 keeps the global effects completed before the fault, which is the specification of 'definitions completed before the failure intact'",
			"for statically placed failures only follow-ups independent of partial execution are judged"},
		Run: func(c *engine.Ctx) {
			ctl, data := c02control(), c02data()
			all := append(append(append([]gen.Ctx{}, ctl...), data...), c05extraCtx()...)
			leaves := c05leaves()
			gen.EnumFull(all, leaves, 1, func(t *T) bool {
				if c.Mine() {
					c05case(c, t, c.Thorough())
				}
				return !c.Expired()
			})
			ctl2 := append(append([]gen.Ctx{}, ctl...), c05extraCtx()...)
			sib := []*T{gen.H1(Int(1))}
			lv := leaves[:2]
			maxk := 2
			if c.Thorough() {
				sib = []*T{gen.H1(Int(1)), gen.H1(Int(0))}
				lv = leaves
			}
			gen.EnumChains(ctl2, lv, sib, maxk, func(t *T) bool {
				if c.Mine() {
					c05case(c, t, c.Thorough())
				}
				return !c.Expired()
			})
			c05static(c, all)
			c05hostCases(c, "")
			c05repeated(c, "")
			c05failedDecl(c, "")
		},
		Replay: func(c *engine.Ctx, w string) {
			if strings.HasPrefix(w, "DECL|") {
				c05failedDecl(c, w)
				for i := range c.Viol {
					c.Viol[i].Key = "*"
				}
				return
			}
			if strings.HasPrefix(w, "REP|") {
				c05repeated(c, w)
				for i := range c.Viol {
					c.Viol[i].Key = "*"
				}
				return
			}
			if strings.HasPrefix(w, "HOST|") {
				c05hostCases(c, w)
				for i := range c.Viol {
					c.Viol[i].Key = "*"
				}
				return
			}
			if strings.HasPrefix(w, "S|") || strings.HasPrefix(w, "P|") {
				c05staticCase(c, w, w[2:], "*")
				for i := range c.Viol {
					c.Viol[i].Key = "*"
				}
				return
			}
			// k|panic|second|text: re-run the whole program (all fault points)
			parts := strings.SplitN(w, "|", 4)
			c05case(c, Parse(parts[3])[0], true)
			for i := range c.Viol {
				c.Viol[i].Key = "*"
			}
		},
	})
}
