package props

import (
	"fmt"
	"reflect"
	"strings"
	"sync"
	"time"

	"github.com/glycerine/zygomys/v9/zygo"

	"verif/internal/engine"
	"verif/internal/zy"
)

// C10 — records convert to Go structs and back without loss.
// Harness-registered struct types cover every supported field kind.

type VIface interface{ Label() string }

type VInner struct {
	S string `json:"s"`
	N int64  `json:"n"`
}

func (v *VInner) Label() string { return v.S }

type VOther struct {
	Q string `json:"q"`
}

func (v *VOther) Label() string { return v.Q }

// three levels of anonymous embedding, the innermost with several fields of one kind
// boxes that hold the same leaf type in a pointer slot and in a value slot (both can sit in an interface slice)
type VPBox struct {
	P *VInner `json:"p"`
}

func (b *VPBox) Label() string { return "pbox" }

type VVBox struct {
	V VInner `json:"v"`
}

func (b *VVBox) Label() string { return "vbox" }

// VTwo is registered under two names; VHolder holds it by value
type VTwo struct {
	Q string `json:"q"`
}

type VHolder struct {
	O   VTwo   `json:"o"`
	Tag string `json:"tag"`
}

type VEmb3 struct {
	Name  string `json:"name3"` // the same Go field name as VAll.Name and VEmb2.Name: only the json tags tell them apart
	Alpha int64  `json:"alpha"`
	Beta  int64  `json:"beta"`
	Gamma string `json:"gamma"`
	Delta string `json:"delta"`
}

type VEmb2 struct {
	VEmb3
	Name string `json:"name2"`
	E2   int    `json:"e2"`
}

type VEmb struct {
	VEmb2
	E int `json:"e"`
}

type VAll struct {
	VEmb
	Str   string                 `json:"str"`
	I     int                    `json:"i"`
	I64   int64                  `json:"i64"`
	F     float64                `json:"f"`
	B     bool                   `json:"b"`
	Strs  []string               `json:"strs"`
	Ints  []int                  `json:"ints"`
	Bytes []byte                 `json:"bytes"`
	MS    map[string]string      `json:"ms"`
	MF    map[string]float64     `json:"mf"`
	MI    map[string]interface{} `json:"mi"`
	MIf   map[string]VIface      `json:"mif"`
	T     time.Time              `json:"t"`
	P     *VInner                `json:"p"`
	P2    *VInner                `json:"p2"`
	V     VInner                 `json:"v"`
	If    VIface                 `json:"if"`
	Ifs   []VIface               `json:"ifs"`
	Vs    []VInner               `json:"vs"`
	Ps    []*VInner              `json:"ps"`
	NoTag string
	Name  string `json:"name"`
}

func (a *VAll) EchoSelf() *VAll              { return a }
func (a *VAll) EchoInner(in *VInner) *VInner { return in }
func (a *VAll) MakeInner() *VInner           { return &VInner{S: "made", N: 42} }
func (a *VAll) MakeTwo() *VTwo               { return &VTwo{Q: "made"} }
func (a *VAll) HolderOfTwo() *VHolder        { return &VHolder{O: VTwo{Q: "held"}, Tag: "t"} }
func (a *VAll) SumInts() int {
	s := 0
	for _, x := range a.Ints {
		s += x
	}
	return s
}

var c10once sync.Once

func c10register() {
	c10once.Do(func() {
		r := &zygo.GoStructRegistry
		r.RegisterUserdef(&zygo.RegisteredType{GenDefMap: true, Factory: func(env *zygo.Zlisp, h *zygo.SexpHash) (interface{}, error) { return &VAll{}, nil }}, true, "vall")
		r.RegisterUserdef(&zygo.RegisteredType{GenDefMap: true, Factory: func(env *zygo.Zlisp, h *zygo.SexpHash) (interface{}, error) { return &VInner{}, nil }}, true, "vinner")
		r.RegisterUserdef(&zygo.RegisteredType{GenDefMap: true, Factory: func(env *zygo.Zlisp, h *zygo.SexpHash) (interface{}, error) { return &VHolder{}, nil }}, true, "vholder")
		r.RegisterUserdef(&zygo.RegisteredType{GenDefMap: true, Factory: func(env *zygo.Zlisp, h *zygo.SexpHash) (interface{}, error) { return &VOther{}, nil }}, true, "vother")
		r.RegisterUserdef(&zygo.RegisteredType{GenDefMap: true, Factory: func(env *zygo.Zlisp, h *zygo.SexpHash) (interface{}, error) { return &VPBox{}, nil }}, true, "vpbox")
		r.RegisterUserdef(&zygo.RegisteredType{GenDefMap: true, Factory: func(env *zygo.Zlisp, h *zygo.SexpHash) (interface{}, error) { return &VVBox{}, nil }}, true, "vvbox")
		// a type registered under two names (like the demo's nestouter/NestOuter): used by C20 only, where registry
		// walks must pick the same name on every run
		r.RegisterUserdef(&zygo.RegisteredType{GenDefMap: true, Factory: func(env *zygo.Zlisp, h *zygo.SexpHash) (interface{}, error) { return &VTwo{}, nil }}, true, "vtwo", "VTwoAlias")
	})
}

// one case: the record text and the Go value it denotes
type c10case struct {
	class string
	setup string // forms evaluated first (shared records)
	rec   string // the vall record expression
	want  func() *VAll
	// shared: after conversion these pointer fields must be the same Go object
	sameP bool
	same  func(v *VAll) string // "" or what is not shared
}

var c10time = time.Date(2020, 3, 4, 5, 6, 7, 0, time.UTC)

type c10atom struct {
	class string
	field string
	frag  string
	apply func(v *VAll)
}

func c10atoms() []c10atom {
	var as []c10atom
	add := func(class, field, frag string, apply func(v *VAll)) {
		as = append(as, c10atom{class, field, frag, apply})
	}
	for _, s := range []string{"", "x", "two words", "é\"q"} {
		s := s
		add("string", "str", fmt.Sprintf("str:%q", s), func(v *VAll) { v.Str = s })
		add("untagged-string", "NoTag", fmt.Sprintf("NoTag:%q", s), func(v *VAll) { v.NoTag = s })
	}
	for _, i := range []int64{0, 1, -7, 1 << 40} {
		i := i
		add("int", "i", fmt.Sprintf("i:%d", i), func(v *VAll) { v.I = int(i) })
		add("int64", "i64", fmt.Sprintf("i64:%d", i), func(v *VAll) { v.I64 = i })
		add("embedded", "e", fmt.Sprintf("e:%d", i), func(v *VAll) { v.E = int(i) })
	}
	for _, f := range []float64{0, 2.5, -1e21} {
		f := f
		add("float64", "f", fmt.Sprintf("f:%v", zygoFloat(f)), func(v *VAll) { v.F = f })
	}
	add("bool", "b", "b:true", func(v *VAll) { v.B = true })
	add("bool", "b", "b:false", func(v *VAll) { v.B = false })
	add("[]string", "strs", `strs:["a" "b c"]`, func(v *VAll) { v.Strs = []string{"a", "b c"} })
	add("[]string", "strs", `strs:["only"]`, func(v *VAll) { v.Strs = []string{"only"} })
	add("[]int", "ints", `ints:[1 2 3]`, func(v *VAll) { v.Ints = []int{1, 2, 3} })
	add("[]int", "ints", `ints:[-5]`, func(v *VAll) { v.Ints = []int{-5} })
	add("[]byte", "bytes", `bytes:(raw "abc")`, func(v *VAll) { v.Bytes = []byte("abc") })
	add("map[string]string", "ms", `ms:(hash k:"v" j:"w")`, func(v *VAll) { v.MS = map[string]string{"k": "v", "j": "w"} })
	add("map[string]float64", "mf", `mf:(hash k:1.5)`, func(v *VAll) { v.MF = map[string]float64{"k": 1.5} })
	add("map[string]interface", "mi", `mi:(hash k:"s")`, func(v *VAll) { v.MI = map[string]interface{}{"k": "s"} })
	add("map[string]interface", "mi", `mi:(hash k:1 j:"s" b:true f:2.5)`, func(v *VAll) { v.MI = map[string]interface{}{"k": int64(1), "j": "s", "b": true, "f": 2.5} })
	add("map[string]Iface", "mif", `mif:(hash k:(vinner s:"m" n:1))`, func(v *VAll) { v.MIf = map[string]VIface{"k": &VInner{S: "m", N: 1}} })
	add("map[string]Iface", "mif", `mif:(hash k:(vinner s:"m" n:1) j:(vother q:"o"))`, func(v *VAll) { v.MIf = map[string]VIface{"k": &VInner{S: "m", N: 1}, "j": &VOther{Q: "o"}} })
	add("embedded3", "alpha", `alpha:11`, func(v *VAll) { v.Alpha = 11 })
	add("embedded3", "beta", `beta:22`, func(v *VAll) { v.Beta = 22 })
	add("embedded3", "gamma", `gamma:"g"`, func(v *VAll) { v.Gamma = "g" })
	add("embedded3", "delta", `delta:"d"`, func(v *VAll) { v.Delta = "d" })
	add("embedded2", "e2", `e2:5`, func(v *VAll) { v.E2 = 5 })
	add("shadowed-name", "name", `name:"top"`, func(v *VAll) { v.Name = "top" })
	add("shadowed-name", "name2", `name2:"mid"`, func(v *VAll) { v.VEmb.VEmb2.Name = "mid" })
	add("shadowed-name", "name3", `name3:"deep"`, func(v *VAll) { v.VEmb.VEmb2.VEmb3.Name = "deep" })
	add("[]struct", "vs", `vs:[(vinner s:"a" n:1) (vinner s:"b")]`, func(v *VAll) { v.Vs = []VInner{{S: "a", N: 1}, {S: "b"}} })
	add("[]struct", "vs", `vs:[(vinner s:"a" n:1) (vinner n:2) (vinner s:"c")]`, func(v *VAll) { v.Vs = []VInner{{S: "a", N: 1}, {N: 2}, {S: "c"}} })
	add("[]*struct", "ps", `ps:[(vinner s:"a" n:1) (vinner s:"b")]`, func(v *VAll) { v.Ps = []*VInner{{S: "a", N: 1}, {S: "b"}} })
	add("[]*struct", "ps", `ps:[(vinner n:4) (vinner s:"b") (vinner n:6)]`, func(v *VAll) { v.Ps = []*VInner{{N: 4}, {S: "b"}, {N: 6}} })
	add("time", "t", `t:tm0`, func(v *VAll) { v.T = c10time })
	add("*struct", "p", `p:(vinner s:"q" n:7)`, func(v *VAll) { v.P = &VInner{S: "q", N: 7} })
	add("*struct", "p2", `p2:(vinner s:"q2" n:8)`, func(v *VAll) { v.P2 = &VInner{S: "q2", N: 8} })
	add("struct-value", "v", `v:(vinner s:"vv" n:1)`, func(v *VAll) { v.V = VInner{S: "vv", N: 1} })
	add("interface", "if", `if:(vinner s:"i" n:2)`, func(v *VAll) { v.If = &VInner{S: "i", N: 2} })
	add("interface", "if", `if:(vother q:"o")`, func(v *VAll) { v.If = &VOther{Q: "o"} })
	add("[]interface", "ifs", `ifs:[(vinner s:"e1" n:3) (vother q:"e2")]`, func(v *VAll) { v.Ifs = []VIface{&VInner{S: "e1", N: 3}, &VOther{Q: "e2"}} })
	return as
}

func c10cases(thorough bool) []c10case {
	var cs []c10case
	atoms := c10atoms()
	mk := func(class string, sel ...c10atom) {
		var frags []string
		for _, a := range sel {
			frags = append(frags, a.frag)
		}
		sel2 := append([]c10atom{}, sel...)
		cs = append(cs, c10case{class: class, rec: "(vall " + strings.Join(frags, " ") + ")", want: func() *VAll {
			v := &VAll{}
			for _, a := range sel2 {
				a.apply(v)
			}
			return v
		}})
	}
	for _, a := range atoms {
		mk(a.class, a)
	}
	// every pair of atoms on different fields, in both orders
	for i, a := range atoms {
		for j, b := range atoms {
			if i == j || a.field == b.field {
				continue
			}
			if !thorough && (i+j)%3 != 0 {
				continue // quick: a third of the pairs
			}
			mk("pair/"+a.class+"+"+b.class, a, b)
		}
	}
	if thorough {
		// triples over one representative per field
		rep := map[string]c10atom{}
		var fields []string
		for _, a := range atoms {
			if _, ok := rep[a.field]; !ok {
				fields = append(fields, a.field)
			}
			rep[a.field] = a
		}
		for i := range fields {
			for j := i + 1; j < len(fields); j++ {
				for k := j + 1; k < len(fields); k++ {
					mk("triple", rep[fields[i]], rep[fields[j]], rep[fields[k]])
				}
			}
		}
	}
	// every subset of the fields reached through embedding (levels 1, 2 and 3 together)
	{
		var emb []c10atom
		for _, a := range atoms {
			if (a.class == "embedded3" || a.class == "embedded2" || a.class == "shadowed-name") || a.frag == "e:1" {
				emb = append(emb, a)
			}
		}
		for mask := 1; mask < 1<<len(emb); mask++ {
			var sel []c10atom
			for i, a := range emb {
				if mask&(1<<i) != 0 {
					sel = append(sel, a)
				}
			}
			if len(sel) >= 2 {
				mk(fmt.Sprintf("embedded-subset/%d", len(sel)), sel...)
			}
		}
	}
	// sharing: one record referenced twice
	// three references to one record: pointer slot, value slot, pointer slot (in every order of the three fields)
	for _, ord := range [][]string{{"p", "v", "p2"}, {"p", "p2", "v"}, {"v", "p", "p2"}, {"p2", "v", "p"}} {
		cs = append(cs, c10case{class: "shared-three-refs/" + strings.Join(ord, "-"), setup: `(def in (vinner s:"sh" n:5))`,
			rec: "(vall " + ord[0] + ":in " + ord[1] + ":in " + ord[2] + ":in)", sameP: true,
			want: func() *VAll { in := &VInner{S: "sh", N: 5}; return &VAll{P: in, P2: in, V: *in} }})
	}
	// the same in the order the converter walks the Go struct: pointer field, value field, interface field / pointer slice
	cs = append(cs, c10case{class: "shared-three-refs/pointer-value-interface", setup: `(def in (vinner s:"sh" n:5))`, rec: `(vall p:in v:in if:in)`,
		want: func() *VAll { in := &VInner{S: "sh", N: 5}; return &VAll{P: in, V: *in, If: in} },
		same: func(v *VAll) string {
			if l, ok := v.If.(*VInner); !ok || l != v.P {
				return "the record referenced from a pointer field, a value field and an interface field: the interface field does not hold the pointer field's object"
			}
			return ""
		}})
	cs = append(cs, c10case{class: "shared-three-refs/pointer-values-pointers", setup: `(def in (vinner s:"sh" n:5))`, rec: `(vall p:in vs:[in in] ps:[in in] ifs:[in])`,
		want: func() *VAll {
			in := &VInner{S: "sh", N: 5}
			return &VAll{P: in, Vs: []VInner{*in, *in}, Ps: []*VInner{in, in}, Ifs: []VIface{in}}
		},
		same: func(v *VAll) string {
			if len(v.Ps) != 2 || v.Ps[0] != v.P || v.Ps[1] != v.P || len(v.Ifs) != 1 || v.Ifs[0] != VIface(v.P) {
				return "after value slots in between, the later pointer slots do not hold the first pointer slot's object"
			}
			return ""
		}})
	// one leaf record inside three different parent records: pointer box, value box, pointer box (all 6 orders of the
	// three boxes, and with a second value box in between)
	for _, order := range [][]string{{"p", "v", "p"}, {"v", "p", "p"}, {"p", "p", "v"}, {"p", "v", "v", "p"}, {"v", "p", "v", "p"}} {
		order := order
		var elems []string
		for _, o := range order {
			if o == "p" {
				elems = append(elems, "(vpbox p:in)")
			} else {
				elems = append(elems, "(vvbox v:in)")
			}
		}
		cs = append(cs, c10case{class: "shared-across-parents/" + strings.Join(order, ""), setup: `(def in (vinner s:"sh" n:5))`, rec: "(vall ifs:[" + strings.Join(elems, " ") + "])",
			want: func() *VAll {
				in := &VInner{S: "sh", N: 5}
				v := &VAll{}
				for _, o := range order {
					if o == "p" {
						v.Ifs = append(v.Ifs, &VPBox{P: in})
					} else {
						v.Ifs = append(v.Ifs, &VVBox{V: *in})
					}
				}
				return v
			},
			same: func(v *VAll) string {
				var first *VInner
				for _, e := range v.Ifs {
					if b, ok := e.(*VPBox); ok {
						if first == nil {
							first = b.P
						} else if b.P != first {
							return "the leaf record referenced from several pointer boxes (with value boxes in between) became several Go objects"
						}
					}
				}
				return ""
			}})
	}
	cs = append(cs, c10case{class: "shared-three-refs/slice-value-slice", setup: `(def in (vinner s:"sh" n:5))`, rec: `(vall ps:[in] v:in ifs:[in] p:in)`,
		want: func() *VAll {
			in := &VInner{S: "sh", N: 5}
			return &VAll{P: in, V: *in, Ps: []*VInner{in}, Ifs: []VIface{in}}
		},
		same: func(v *VAll) string {
			if len(v.Ps) != 1 || len(v.Ifs) != 1 || v.Ps[0] != v.P || v.Ifs[0] != VIface(v.P) {
				return "the record referenced from a pointer slice, a value field, an interface slice and a pointer field is not one Go object in the three pointer-like slots"
			}
			return ""
		}})
	cs = append(cs, c10case{class: "shared-in-map-of-interface", setup: `(def in (vinner s:"sh" n:5))`, rec: `(vall p:in mif:(hash left:in right:in))`,
		want: func() *VAll {
			in := &VInner{S: "sh", N: 5}
			return &VAll{P: in, MIf: map[string]VIface{"left": in, "right": in}}
		},
		same: func(v *VAll) string {
			if v.MIf["left"] != v.MIf["right"] {
				return "the two map entries are different Go objects"
			}
			if l, ok := v.MIf["left"].(*VInner); !ok || l != v.P {
				return "the map entry and the pointer field are different Go objects"
			}
			return ""
		}})
	cs = append(cs, c10case{class: "shared-in-map-of-interface-only", setup: `(def in (vother q:"sh"))`, rec: `(vall mif:(hash a:in b:in) if:in)`,
		want: func() *VAll {
			in := &VOther{Q: "sh"}
			return &VAll{If: in, MIf: map[string]VIface{"a": in, "b": in}}
		},
		same: func(v *VAll) string {
			if v.MIf["a"] != v.MIf["b"] || v.MIf["a"] != v.If {
				return "the record referenced three times became several Go objects"
			}
			return ""
		}})
	cs = append(cs, c10case{class: "shared-pointer-twice", setup: `(def in (vinner s:"sh" n:5))`, rec: `(vall p:in p2:in)`, sameP: true,
		want: func() *VAll { in := &VInner{S: "sh", N: 5}; return &VAll{P: in, P2: in} }})
	cs = append(cs, c10case{class: "shared-pointer-and-interface", setup: `(def in (vinner s:"sh" n:5))`, rec: `(vall p:in if:in)`,
		want: func() *VAll { in := &VInner{S: "sh", N: 5}; return &VAll{P: in, If: in} }})
	cs = append(cs, c10case{class: "shared-interface-and-pointer", setup: `(def in (vinner s:"sh" n:5))`, rec: `(vall if:in p:in)`,
		want: func() *VAll { in := &VInner{S: "sh", N: 5}; return &VAll{P: in, If: in} }})
	cs = append(cs, c10case{class: "shared-pointer-and-value", setup: `(def in (vinner s:"sh" n:5))`, rec: `(vall p:in v:in)`,
		want: func() *VAll { in := &VInner{S: "sh", N: 5}; return &VAll{P: in, V: *in} }})
	cs = append(cs, c10case{class: "shared-value-and-pointer", setup: `(def in (vinner s:"sh" n:5))`, rec: `(vall v:in p:in)`,
		want: func() *VAll { in := &VInner{S: "sh", N: 5}; return &VAll{P: in, V: *in} }})
	cs = append(cs, c10case{class: "shared-in-slice-and-field", setup: `(def in (vinner s:"sh" n:5))`, rec: `(vall ifs:[in in] p:in)`,
		want: func() *VAll { in := &VInner{S: "sh", N: 5}; return &VAll{P: in, Ifs: []VIface{in, in}} }})
	return cs
}

func zygoFloat(f float64) string {
	s := (&zygo.SexpFloat{Val: f}).SexpString(nil)
	if !strings.ContainsAny(s, ".e") {
		s += ".0"
	}
	return s
}

func c10run(c *engine.Ctx, k c10case) {
	w := k.class + "|" + k.setup + "|" + k.rec
	c.Begin(w)
	c10register()
	env := zy.New(true)
	defer env.Close()
	env.AddGlobal("tm0", &zygo.SexpTime{Tm: c10time})
	viol := func(clause, detail string) { c.Violation(clause, "C10/"+clause+"/"+k.class, w, detail) }
	if k.setup != "" {
		zy.Eval(env, k.setup)
	}
	r := zy.Eval(env, "(def a "+k.rec+")")
	if !r.OK() {
		viol("record-rejected", fmt.Sprintf("a well-typed record is rejected: %s", r))
		return
	}
	want := k.want()
	// (1) explicit conversion through the Go API
	var got VAll
	var convErr error
	func() {
		defer func() {
			if x := recover(); x != nil {
				convErr = fmt.Errorf("panic: %v", x)
			}
		}()
		_, convErr = zygo.SexpToGoStructs(r.Sexp, &got, env, nil, 0, &got)
	}()
	if convErr != nil {
		viol("to-go-fails", fmt.Sprintf("SexpToGoStructs(%s): %v", k.rec, clipS(convErr.Error(), 300)))
	} else if !reflect.DeepEqual(&got, want) {
		viol("to-go-differs", fmt.Sprintf("SexpToGoStructs(%s) = %+v, want %+v", k.rec, got, *want))
	} else if k.sameP && got.P != got.P2 {
		viol("sharing", "the record referenced twice became two Go objects")
	} else if k.same != nil && k.same(&got) != "" {
		viol("sharing", k.same(&got))
	}
	// (2) the script-level conversion
	tg := zy.Eval(env, "(togo a)")
	if !tg.OK() {
		viol("togo-fails", fmt.Sprintf("(togo %s) fails: %s", k.rec, clipS(tg.String(), 300)))
	}
	// (3) implicit conversion + the way back: a Go method returning the struct it was called on
	e := zy.Eval(env, "(_method a EchoSelf:)")
	if !e.OK() {
		viol("echo-fails", fmt.Sprintf("(_method a EchoSelf:) fails: %s", clipS(e.String(), 300)))
	} else {
		// the result is an array of return values
		back := e.Sexp
		if arr, ok := back.(*zygo.SexpArray); ok && len(arr.Val) == 1 {
			back = arr.Val[0]
		}
		if !echoEquivalent(r.Sexp, back) {
			// is the time field the only thing lost? then it is the recorded finding, whatever else the record holds
			if strings.Contains(k.rec, "t:tm0") && k.class != "time" {
				env.AddGlobal("tm0", zygo.SexpNull)
				r2 := zy.Eval(env, "(def a2 "+k.rec+")")
				if r2.OK() && echoEquivalent(r2.Sexp, back) {
					c.Violation("echo-differs", "C10/echo-differs/time", w, "only the time field is lost on the way back")
					c.Outcome(k.class + "|" + k.rec)
					return
				}
			}
			viol("echo-differs", fmt.Sprintf("record %s came back from Go as %s", clipS(r.Sexp.SexpString(nil), 200), clipS(back.SexpString(nil), 200)))
		}
	}
	c.Outcome(k.class + "|" + k.rec)
}

// isZeroish: what an unset Go field looks like on the way back
func isZeroish(v zygo.Sexp) bool {
	switch x := v.(type) {
	case *zygo.SexpSentinel:
		return true
	case *zygo.SexpInt:
		return x.Val == 0
	case *zygo.SexpFloat:
		return x.Val == 0
	case *zygo.SexpStr:
		return x.S == ""
	case *zygo.SexpBool:
		return !x.Val
	case *zygo.SexpArray:
		return len(x.Val) == 0
	case *zygo.SexpRaw:
		return len(x.Val) == 0
	case *zygo.SexpHash:
		for _, k := range x.KeyOrder {
			val, _ := x.HashGet(nil, k)
			if !isZeroish(val) {
				return false
			}
		}
		return true
	}
	return false
}

// echoEquivalent: the record that came back from Go has the same type and, for
// every field the original set, an equal value; fields the original did not
// set may appear with the zero value of their Go type (Go cannot tell unset from zero).
func echoEquivalent(orig, back zygo.Sexp) bool {
	a, ok1 := orig.(*zygo.SexpHash)
	b, ok2 := back.(*zygo.SexpHash)
	if !ok1 || !ok2 {
		if arrA, isA := orig.(*zygo.SexpArray); isA {
			arrB, isB := back.(*zygo.SexpArray)
			if !isB || len(arrA.Val) != len(arrB.Val) {
				return false
			}
			for i := range arrA.Val {
				if !echoEquivalent(arrA.Val[i], arrB.Val[i]) {
					return false
				}
			}
			return true
		}
		return equalData(orig, back)
	}
	if a.TypeName != b.TypeName {
		return false
	}
	seen := map[string]bool{}
	for _, k := range a.KeyOrder {
		name := k.SexpString(nil)
		seen[name] = true
		va, _ := a.HashGet(nil, k)
		vb, err := b.HashGet(nil, k)
		if err != nil {
			return isZeroish(va)
		}
		if !echoEquivalent(va, vb) {
			return false
		}
	}
	for _, k := range b.KeyOrder {
		if seen[k.SexpString(nil)] {
			continue
		}
		vb, _ := b.HashGet(nil, k)
		if !isZeroish(vb) {
			return false
		}
	}
	return true
}

// a field the struct does not have, or a value of the wrong kind: an error, never a silent drop
func c10bad(c *engine.Ctx) {
	bad := []struct{ class, rec string }{
		{"undeclared-field", `(vall nosuch:1)`}, {"undeclared-field-nested", `(vall p:(vinner zzz:1))`},
		{"wrong-kind/string<-int", `(vall str:5)`}, {"wrong-kind/int<-string", `(vall i:"s")`}, {"wrong-kind/[]string<-[]int", `(vall strs:[1 2])`},
		{"wrong-kind/*struct<-int", `(vall p:5)`}, {"wrong-kind/*struct<-other-struct", `(vall p:(vother q:"x"))`}, {"wrong-kind/bool<-int", `(vall b:1)`},
		{"wrong-kind/float<-string", `(vall f:"x")`}, {"wrong-kind/map<-array", `(vall ms:[1])`}, {"wrong-kind/nested-int<-string", `(vall v:(vinner n:"s"))`},
	}
	for _, b := range bad {
		if !c.Mine() {
			continue
		}
		w := "BAD|" + b.class + "|" + b.rec
		c.Begin(w)
		c10register()
		env := zy.New(true)
		r := zy.Eval(env, "(togo "+b.rec+")")
		if r.Panic != "" {
			c.Violation("panic", "C10/panic/"+b.class, w, r.Panic)
		} else if r.OK() {
			c.Violation("bad-record-accepted", "C10/bad-record-accepted/"+b.class, w, fmt.Sprintf("(togo %s) succeeded: %s", b.rec, clipS(r.Short(), 200)))
		}
		env.Close()
		c.Outcome("bad|" + b.class + "|" + r.Short()[:min(len(r.Short()), 3)])
	}
}

// c10seq: conversions after the record has changed — the Go side must see the record's current values every time
func c10seq(c *engine.Ctx, only string) {
	seqs := []struct {
		name   string
		script []string
		want   []string // substrings of the printed last result
	}{
		{"arg-after-togo-and-hset", []string{`(def in (vinner s:"a" n:1))`, `(togo in)`, `(hset in s: "changed")`, `(def a (vall str:"x"))`, `(_method a EchoInner: in)`}, []string{`s:"changed"`, `n:1`}},
		{"arg-after-use-as-field-and-hset", []string{`(def in (vinner s:"a" n:1))`, `(def a (vall p:in))`, `(togo a)`, `(hset in n: 9)`, `(_method a EchoInner: in)`}, []string{`s:"a"`, `n:9`}},
		{"arg-twice-with-hset-between", []string{`(def in (vinner s:"a" n:1))`, `(def a (vall str:"x"))`, `(_method a EchoInner: in)`, `(hset in s: "second")`, `(_method a EchoInner: in)`}, []string{`s:"second"`, `n:1`}},
		{"arg-after-being-receiver-like-nesting", []string{`(def in (vinner s:"a" n:1))`, `(def a (vall if:in ifs:[in]))`, `(_method a EchoSelf:)`, `(hset in n: 5)`, `(_method a EchoInner: in)`}, []string{`n:5`}},
		{"togo-twice-with-hset-between", []string{`(def in (vinner s:"a" n:1))`, `(togo in)`, `(hset in n: 7)`, `(str (togo in))`}, []string{`N:7`}},
	}
	seqs = append(seqs, []struct {
		name   string
		script []string
		want   []string
	}{
		// a map field that shrinks between two conversions: the Go map must not keep the removed entries
		{"map-field-shrinks", []string{`(def a (vall ms:(hash k:"v" j:"w")))`, `(togo a)`, `(hset a ms: (hash k:"z"))`, `(togo a)`}, []string{`"k":"z"`, `!"j":`}},
		{"map-of-interface-shrinks", []string{`(def a (vall mi:(hash k:1 j:"s")))`, `(togo a)`, `(hset a mi: (hash k:2))`, `(togo a)`}, []string{`"k":2`, `!"j":`}},
		{"slice-field-shrinks", []string{`(def a (vall strs:["a" "b" "c"]))`, `(togo a)`, `(hset a strs: ["z"])`, `(togo a)`}, []string{`Strs:[]string{"z"}`}},
		{"pointer-field-cleared", []string{`(def a (vall p:(vinner s:"a" n:1)))`, `(togo a)`, `(hset a p: nil)`, `(togo a)`}, []string{`P:(*props.VInner)(nil)`}},
	}...)
	seqs = append(seqs, []struct {
		name   string
		script []string
		want   []string
	}{
		// a conversion that fails leaves no Go object attached: a later method call fails the same way, and after the
		// record is repaired the conversion is made afresh
		{"failed-togo-then-method", []string{`(def a (vall str:"k" ints:["x"]))`, `(togo a)`, `(_method a EchoSelf:)`}, []string{`ERR`}},
		{"failed-togo-then-sum", []string{`(def a (vall str:"k" ints:["x"]))`, `(togo a)`, `(_method a SumInts:)`}, []string{`ERR`}},
		{"failed-togo-twice", []string{`(def a (vall str:"k" ints:["x"]))`, `(togo a)`, `(togo a)`}, []string{`ERR`}},
		{"failed-togo-then-repaired", []string{`(def a (vall str:"k" ints:["x"]))`, `(togo a)`, `(hset a ints: [1 2])`, `(togo a)`}, []string{`Ints:[]int{1, 2}`, `Str:"k"`}},
		{"failed-togo-then-repaired-sum", []string{`(def a (vall str:"k" ints:["x"]))`, `(togo a)`, `(hset a ints: [1 2])`, `(_method a SumInts:)`}, []string{`3`}},
		{"failed-method-then-repaired-sum", []string{`(def a (vall str:"k" ints:["x"]))`, `(_method a SumInts:)`, `(hset a ints: [1 2])`, `(_method a SumInts:)`}, []string{`3`}},
		{"failed-inner-then-method", []string{`(def in (vinner s:"a" n:"notanumber"))`, `(togo in)`, `(def a (vall str:"x"))`, `(_method a EchoInner: in)`}, []string{`ERR`}},
	}...)
	for _, sq := range seqs {
		w := "SEQ|" + sq.name
		if !(only == "" && c.Mine() || only == w) {
			continue
		}
		c.Begin(w)
		c10register()
		env := zy.New(true)
		var last zy.Res
		for _, t := range sq.script {
			last = zy.Eval(env, t)
		}
		got := last.String()
		if last.OK() {
			got = last.Sexp.SexpString(nil)
			if str, isStr := last.Sexp.(*zygo.SexpStr); isStr {
				got = str.S // (togo x) returns the Go-syntax rendering as a string
			}
		}
		for _, sub := range sq.want {
			if sub == "ERR" { // the last step must be refused
				if last.OK() {
					c.Violation("failed-conversion-used", "C10/failed-conversion-used/"+sq.name, w, fmt.Sprintf("after %q the last step succeeded with %s although the record does not convert", sq.script, clipS(got, 300)))
				}
				break
			}
			if strings.HasPrefix(sub, "!") { // must NOT occur
				if strings.Contains(got, sub[1:]) {
					c.Violation("stale-conversion", "C10/stale-conversion/"+sq.name, w, fmt.Sprintf("after %q the Go side still holds %s: %s", sq.script, sub[1:], clipS(got, 300)))
					break
				}
				continue
			}
			if !strings.Contains(got, sub) {
				c.Violation("stale-conversion", "C10/stale-conversion/"+sq.name, w, fmt.Sprintf("after %q the Go side saw %s; the record's current values include %s", sq.script, clipS(got, 300), sub))
				break
			}
		}
		env.Close()
		c.Outcome(w + "|" + clipS(got, 60))
	}
}

func init() {
	engine.Register(&engine.Check{
		ID:    "C10",
		Level: "exploration",
		Rule: "harness-registered Go struct types with one field of every supported kind (string, int, int64, float64, bool, []string, []int, []byte, map[string]string|float64|interface, time.Time, embedded struct, *struct, struct value, interface holding a registered struct, slice of such interfaces, slices of struct values and of struct pointers, map of interfaces, three levels of embedding, untagged field): " +
			"for 2-4 values per kind, combinations, and 4 sharing patterns the Go value is fixed first and the record text derived from it; SexpToGoStructs and (togo r) must give reflect.DeepEqual values with one object per shared record; (_method a EchoSelf:) must return an equal record; 11 records with an undeclared field or a wrong-kind value must be reported as errors; 16 sequences in which a record changes (hset) after it has already been converted once (or after its conversion failed) and is then passed to Go again",
		Assumptions: []string{"types are registered by the harness through the public registry API, like the demo structs"},
		Run: func(c *engine.Ctx) {
			for _, k := range c10cases(c.Thorough()) {
				if c.Mine() {
					c10run(c, k)
				}
			}
			c10bad(c)
			c10seq(c, "")
		},
		Replay: func(c *engine.Ctx, w string) {
			if strings.HasPrefix(w, "SEQ|") {
				c10seq(c, w)
			} else if strings.HasPrefix(w, "BAD|") {
				c.NWorkers = 1
				c10bad(c)
			} else {
				for _, k := range c10cases(true) {
					if k.class+"|"+k.setup+"|"+k.rec == w {
						c10run(c, k)
					}
				}
			}
			for i := range c.Viol {
				c.Viol[i].Key = "*"
			}
		},
	})
}
