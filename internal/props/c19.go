package props

import (
	"fmt"
	"sort"
	"strconv"
	"strings"

	"github.com/glycerine/zygomys/v9/zygo"

	"verif/internal/engine"
	"verif/internal/explore"
	"verif/internal/zy"
)

// C19 — symbols are interned consistently across interpreters sharing a table.
// Explicit-state BFS over histories of MakeSymbol / GenSymbol / Duplicate /
// Clone on a family of at most 3 interpreters.

type c19op struct {
	kind   string // ms, gs, dup, clone
	member int
	name   string // for ms: literal name, or "@j" = the name member j would generate next
}

func c19ops() []c19op {
	var ops []c19op
	for m := 0; m < 3; m++ {
		ops = append(ops, c19op{"ms", m, "a"}, c19op{"ms", m, "b"})
		for j := 0; j < 3; j++ {
			ops = append(ops, c19op{"ms", m, "@" + strconv.Itoa(j)})
		}
		ops = append(ops, c19op{"ms", m, "+" + strconv.Itoa(m)}) // a generated-looking name one ahead of member m's counter
		ops = append(ops, c19op{"gs", m, ""}, c19op{"dup", m, ""}, c19op{"clone", m, ""})
	}
	return ops
}

func (o c19op) String() string { return fmt.Sprintf("%s%d%s", o.kind, o.member, o.name) }

type c19sym struct {
	name string
	num  int
	gen  bool
}

func c19run(c *engine.Ctx, ops []c19op, hist []int, record bool) (string, bool) {
	var names []string
	for _, h := range hist {
		names = append(names, ops[h].String())
	}
	w := strings.Join(names, " ")
	fam := []*zygo.Zlisp{zy.New(false)}
	defer fam[0].Close()
	var seen []c19sym
	initialNames, _ := fam[0].VerifSymtab()
	viol := func(clause, detail string) {
		if record {
			c.Violation(clause, "C19/"+clause, w, detail)
		}
	}
	if record {
		c.Begin(w)
	}
	for step, h := range hist {
		o := ops[h]
		if o.member >= len(fam) {
			return "", false // member does not exist: operation not enabled
		}
		env := fam[o.member]
		last := step == len(hist)-1
		switch o.kind {
		case "dup", "clone":
			if len(fam) >= 3 {
				return "", false
			}
			if o.kind == "dup" {
				fam = append(fam, env.Duplicate())
			} else {
				fam = append(fam, env.Clone())
			}
		case "ms":
			name := o.name
			if name[0] == '+' {
				j, _ := strconv.Atoi(name[1:])
				if j >= len(fam) {
					return "", false
				}
				name = "g" + strconv.Itoa(fam[j].VerifNextSymbol()+1)
			} else if name[0] == '@' {
				j, _ := strconv.Atoi(name[1:])
				if j >= len(fam) {
					return "", false
				}
				name = "g" + strconv.Itoa(fam[j].VerifNextSymbol())
			}
			s := env.MakeSymbol(name)
			seen = append(seen, c19sym{s.Name(), s.VerifNumber(), false})
			if last && s.Name() != name {
				viol("name", fmt.Sprintf("MakeSymbol(%q) returned a symbol named %q", name, s.Name()))
			}
		case "gs":
			before, _ := env.VerifSymtab()
			s := env.GenSymbol("g")
			if last {
				if _, existed := before[s.Name()]; existed {
					viol("generated-not-fresh", fmt.Sprintf("GenSymbol on member %d returned %q (#%d), a name that was already interned", o.member, s.Name(), s.VerifNumber()))
				}
			}
			seen = append(seen, c19sym{s.Name(), s.VerifNumber(), true})
		}
	}
	// invariant over everything returned so far
	for i := range seen {
		for j := i + 1; j < len(seen); j++ {
			a, b := seen[i], seen[j]
			if (a.name == b.name) != (a.num == b.num) {
				viol("name-number", fmt.Sprintf("symbols %q#%d and %q#%d: equal names must mean equal numbers and vice versa", a.name, a.num, b.name, b.num))
			}
			if a.gen && b.gen && a.name == b.name {
				viol("generated-twice", fmt.Sprintf("two generated symbols share the name %q", a.name))
			}
		}
	}
	// the table itself: a bijection between names and numbers
	tab, rev := fam[0].VerifSymtab()
	for name, num := range tab {
		if rev[num] != name {
			viol("table", fmt.Sprintf("table maps %q to %d but %d back to %q", name, num, num, rev[num]))
		}
	}
	if len(tab) != len(rev) {
		viol("table", fmt.Sprintf("%d names but %d numbers in the table", len(tab), len(rev)))
	}
	// canonical state: user-made entries of the table + per-member counters (relative to the base)
	// (every member's view of the table is part of the state: they must be one table, but the key must not assume it)
	key := ""
	for mi, e := range fam {
		mtab, mrev := e.VerifSymtab()
		var ent []string
		for name, num := range mtab {
			if _, ok := initialNames[name]; !ok {
				ent = append(ent, fmt.Sprintf("%s=%d", name, num))
			}
		}
		sort.Strings(ent)
		key += fmt.Sprintf("|m%d:%s;rev=%d;next=%d;shared=%v", mi, strings.Join(ent, ","), len(mrev)-len(initialNames), e.VerifNextSymbol(), e.VerifSharesSymtab(fam[0]))
		if mi > 0 {
			for name, num := range tab {
				if mtab[name] != num {
					viol("shared-table", fmt.Sprintf("member %d does not see %q=%d of member 0's table", mi, name, num))
					break
				}
			}
			if len(mtab) != len(tab) {
				viol("shared-table", fmt.Sprintf("member %d has %d names, member 0 has %d", mi, len(mtab), len(tab)))
			}
		}
	}
	// which symbols were handed out as generated matters for the future of the invariant
	var gens []string
	for _, s := range seen {
		if s.gen {
			gens = append(gens, s.name)
		}
	}
	sort.Strings(gens)
	key += "|gen:" + strings.Join(gens, ",")
	if record {
		c.Outcome(key)
	}
	return key, true
}

// script level: programs that intern symbols at run time
func c19scripts(c *engine.Ctx) {
	progs := []string{
		`(== (str2sym "abc") (quote abc))`,
		`(== (str2sym "abc") (str2sym "abd"))`,
		`(def g1 (gensym)) (def g2 (gensym)) (== g1 g2)`,
		`(def g1 (gensym)) (== g1 (str2sym (sym2str g1)))`,
		`(defmac mk2 [] ^(quote ~(gensym))) (def s1 (mk2)) (def s2 (mk2)) (def s3 (gensym)) (list (== s1 s2) (== s1 s3) (== s2 s3))`,
		`(def h (hash)) (hset h (str2sym "k1") 1) (hset h (quote k1) 2) (len h)`,
		`(defmac mk3 [] ^(quote ~(str2sym "fresh1"))) (def a1 (mk3)) (== a1 (quote fresh1))`,
		`(def h (hash)) (defmac put [] ^(hset h (quote ~(gensym)) 1)) (put) (put) (hset h (gensym) 1) (len h)`,
	}
	want := []string{"true", "false", "false", "true", "(false false false)", "1", "true", "3"}
	for i, p := range progs {
		if !c.Mine() {
			continue
		}
		w := "S|" + strconv.Itoa(i)
		c.Begin(w)
		tr := zy.NewTraced(true)
		r := tr.Run(p)
		tr.Env.Close()
		if r.Short() != want[i] {
			c.Violation("script", "C19/script/"+strconv.Itoa(i), w, fmt.Sprintf("%s evaluates to %s, want %s", p, r, want[i]))
		}
		c.Outcome("script|" + r.Short())
	}
}

func init() {
	engine.Register(&engine.Check{
		ID:    "C19",
		Level: "model_checking",
		Rule: "explicit-state BFS over histories of MakeSymbol(name) / GenSymbol / Duplicate / Clone on a family of <=3 real interpreters sharing one symbol table; names {a, b, and the names members 0..2 would generate next}; depth 5 (thorough 7); " +
			"state key = user entries of the shared table + per-member counters + set of generated names; invariant: over all symbols returned, equal names <=> equal numbers, a generated symbol's name was not interned before and no two generated symbols coincide, table is a bijection; plus 8 script-level programs (str2sym, gensym, macros, hash keys)",
		Assumptions: []string{"symbol numbers and the next-symbol counters are read through verif accessors"},
		Run: func(c *engine.Ctx) {
			ops := c19ops()
			depth := 5
			if c.Thorough() {
				depth = 7
			}
			b := &explore.BFS{NOps: len(ops), Depth: depth, ShardLevel: 2, Step: func(h []int, record bool) (string, bool) {
				return c19run(c, ops, h, record)
			}}
			b.Run(c)
			c19scripts(c)
		},
		Replay: func(c *engine.Ctx, w string) {
			if strings.HasPrefix(w, "S|") {
				c.NWorkers = 1
				c19scripts(c)
				return
			}
			ops := c19ops()
			var hist []int
			for _, f := range strings.Fields(w) {
				for i, o := range ops {
					if o.String() == f {
						hist = append(hist, i)
					}
				}
			}
			c19run(c, ops, hist, true)
		},
	})
}
