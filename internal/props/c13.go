package props

import (
	"bytes"
	"fmt"
	"os"
	"os/exec"
	"path/filepath"
	"sort"
	"strconv"
	"strings"
	"time"

	"github.com/glycerine/zygomys/v9/zygo"

	"verif/internal/engine"
	"verif/internal/explore"
)

// C13 — parsing depends only on the text: not on chunking, not on history.

type parseOut struct {
	exprs  string // rendering of the expression list
	kind   string // ok | more | hard | panic
	errTxt string
	pauses int
}

func renderExprs(xs []zygo.Sexp) (s string) {
	defer func() {
		if r := recover(); r != nil {
			s = "PANIC-IN-PRINT"
		}
	}()
	parts := make([]string, len(xs))
	for i, x := range xs {
		if x == nil {
			parts[i] = "GONIL"
			continue
		}
		parts[i] = x.SexpString(nil)
	}
	return strings.Join(parts, " ¦ ")
}

// parsePieces delivers the pieces the way the REPL continuation loop does:
// the next piece is handed over iff the parser paused for more input.
func parsePieces(env *zygo.Zlisp, pieces []string) (out parseOut) {
	defer func() {
		if r := recover(); r != nil {
			out = parseOut{kind: "panic", errTxt: fmt.Sprint(r)}
		}
	}()
	p := env.VerifParser()
	p.ResetAddNewInput(bytes.NewBufferString(pieces[0]))
	xs, err := p.ParseTokens()
	i := 1
	for err == zygo.ErrMoreInputNeeded && i < len(pieces) {
		out.pauses++
		p.NewInput(bytes.NewBufferString(pieces[i]))
		i++
		xs, err = p.ParseTokens()
	}
	out.exprs = renderExprs(xs)
	switch {
	case err == nil:
		out.kind = "ok"
		if i < len(pieces) {
			out.kind = "ok-early" // finished before all pieces were consumed
		}
	case err == zygo.ErrMoreInputNeeded:
		out.kind = "more"
	default:
		out.kind = "hard"
		out.errTxt = err.Error()
	}
	return out
}

// parseQueued hands all pieces over before the parser reads any of them (new input queues up behind unread input).
func parseQueued(env *zygo.Zlisp, pieces []string) (out parseOut) {
	defer func() {
		if r := recover(); r != nil {
			out = parseOut{kind: "panic", errTxt: fmt.Sprint(r)}
		}
	}()
	p := env.VerifParser()
	p.ResetAddNewInput(bytes.NewBufferString(pieces[0]))
	for _, pc := range pieces[1:] {
		p.NewInput(bytes.NewBufferString(pc))
	}
	xs, err := p.ParseTokens()
	out.exprs = renderExprs(xs)
	switch {
	case err == nil:
		out.kind = "ok"
	case err == zygo.ErrMoreInputNeeded:
		out.kind = "more"
	default:
		out.kind = "hard"
		out.errTxt = err.Error()
	}
	return out
}

// R8: does the text end inside an open bracket, string, raw string or block
// comment? unknown=true when it ends inside a construct the property does not
// list (character literal) or brackets are mismatched.
func r8open(text string) (open bool, unknown bool) {
	const (
		normal = iota
		str
		strEsc
		raw
		lineC
		blockC
		blockStar
		chr
		chrEsc
	)
	st := normal
	var stack []rune
	rs := []rune(text)
	for i := 0; i < len(rs); i++ {
		r := rs[i]
		switch st {
		case normal:
			switch r {
			case '"':
				st = str
			case '`':
				st = raw
			case '\'':
				st = chr
			case '/':
				if i+1 < len(rs) && rs[i+1] == '/' {
					st = lineC
					i++
				} else if i+1 < len(rs) && rs[i+1] == '*' {
					st = blockC
					i++
				}
			case '(', '[', '{':
				stack = append(stack, r)
			case ')', ']', '}':
				if len(stack) == 0 {
					return false, true
				}
				top := stack[len(stack)-1]
				if (r == ')' && top != '(') || (r == ']' && top != '[') || (r == '}' && top != '{') {
					return false, true
				}
				stack = stack[:len(stack)-1]
			}
		case str:
			if r == '\\' {
				st = strEsc
			} else if r == '"' {
				st = normal
			}
		case strEsc:
			st = str
		case raw:
			if r == '`' {
				st = normal
			}
		case lineC:
			if r == '\n' {
				st = normal
			}
		case blockC:
			if r == '*' {
				st = blockStar
			}
		case blockStar:
			if r == '/' {
				st = normal
			} else if r != '*' {
				st = blockC
			}
		case chr:
			if r == '\\' {
				st = chrEsc
			} else if r == '\'' {
				st = normal
			}
		case chrEsc:
			st = chr
		}
	}
	switch st {
	case chr, chrEsc:
		return false, true
	case str, strEsc, raw, blockC, blockStar:
		return true, false
	}
	return len(stack) > 0, false
}

func c13corpus() []string {
	var texts []string
	files, _ := filepath.Glob("/repo/tests/*.zy")
	sort.Strings(files)
	for _, f := range files {
		b, err := os.ReadFile(f)
		if err == nil {
			texts = append(texts, string(b))
		}
	}
	return texts
}

var c13hand = []string{
	"(+ 1 2) abc", "abc", "(def a \"x y\") a", "`raw\nstring` 3", "(+ 1 /* c */ 2)", "(+ 1 2) // tail", "(list -1 -2.5 1e-3 1E+5)",
	"a:b c := d", "{a = b + c; d}", "(quote x) %y ^(a ~b ~@c)", "'c' '\\n' \"q\\\"r\"", "(a <= b) (c >= d) (e != f) (g -> h)", "x.y.z .w", "(- 5) -5 - 5 a-b a -b",
	"{a: 1 \"b\": [1, 2]}", "[1 2 3] (hash k: 1)", "0x1F 0o7 0b1 12ULL 1_000", "(f)(g)", "&& || ! **", "/* open", "\"open", "`open", "(open", "[1 {2", "~x ~@y ~(f 1)",
	"(a \\ -", "(a \\ b", "(a \\", "(a \\ b)", "/* x **/ 1", "/** doc **/ (f)", "{\"k\": 1}", "{\"s\"s\"", "% ", "(f %", "- Inf", "-Inf +Inf", "(list - Inf)",
	"\"a\\nb\" \"q\\\\\"", "'\\n' '\\''", "(f \"x\\ty\")", "\"tab\\there\"",
	// dotted pairs whose tail ends in a bracket, a string, a raw string, a character, or is followed by a blank
	"(a \\ (b c))", "(a \\ [1 2])", "(a \\ \"s\")", "(a \\ `r`)", "(a \\ 'c')", "(a \\ b )", "(a \\ {x})", "(1 \\ (2 \\ (3 \\ nil)))", "((a \\ (b)) \\ [c])", "(a \\ (b c)) d",
	"%%a", "^~x", "%~@a", "%-Inf", "%- ", "%+", "^^a", "%^~a",
}

var c13alphabet = []string{"(", ")", "[", "]", "{", "}", "a", "1", "-1", "1e", "0x1", `"s"`, `"s`, "'c'", "`r`", "`", ":", "a:", ":=", "=", ".a", "a.b", "%", "^", "~", "~@", ";", ",", "+", "-", "/", "/*", "*/", "//", "#", "&", "\\", "$", "1e-3", "-"}

func c13genTexts(k int, f func(string)) {
	var rec func(parts []string)
	rec = func(parts []string) {
		if len(parts) > 0 {
			f(strings.Join(parts, ""))
			f(strings.Join(parts, " "))
		}
		if len(parts) == k {
			return
		}
		for _, a := range c13alphabet {
			rec(append(parts, a))
		}
	}
	rec(nil)
}

func c13keyOf(text string) string {
	// class of the text: its first 24 runes, so the same root cause under many
	// cut positions is one class
	r := []rune(text)
	if len(r) > 24 {
		r = r[:24]
	}
	return strings.ReplaceAll(string(r), "\n", "\\n")
}

// c13text checks one text: whole parse, every prefix, every 1-cut, and (when
// short) every 2-cut.
func c13text(c *engine.Ctx, env *zygo.Zlisp, text string, twoCuts bool) {
	rs := []rune(text)
	w := "T|" + text
	c.Begin(w)
	whole := parsePieces(env, []string{text})
	key := c13keyOf(text)
	viol := func(clause, detail string) {
		c.Violation(clause, "C13/"+clause+"/"+key, w, detail)
	}
	if whole.kind == "panic" {
		viol("panic", whole.errTxt)
		return
	}
	// (3) the last token is never lost: the whole text plus a terminating newline denotes the same expressions
	wnl := parsePieces(env, []string{text + "\n"})
	if wnl.kind == "ok" && whole.kind == "ok" && wnl.exprs != whole.exprs {
		viol("last-token-lost", fmt.Sprintf("text %q parses to [%s], with a trailing newline to [%s]", text, whole.exprs, wnl.exprs))
	}
	// (an unfinished text may well turn into a lexical error once more runes arrive: only complete texts are compared)
	if whole.kind != "more" && wnl.kind != whole.kind {
		viol("end-of-text", fmt.Sprintf("text %q: result kind %s (%s); with a trailing newline: %s (%s)", text, whole.kind, whole.errTxt, wnl.kind, wnl.errTxt))
	}
	// (2) pause iff unfinished prefix
	open, unknown := r8open(text)
	if !unknown && whole.kind != "hard" {
		if open && whole.kind != "more" {
			viol("no-pause-on-unfinished", fmt.Sprintf("text %q ends inside an open bracket/string/raw string/block comment, but the parser returned %s [%s]", text, whole.kind, whole.exprs))
		}
		if !open && whole.kind == "more" {
			viol("pause-on-complete", fmt.Sprintf("text %q is complete, but the parser asks for more input", text))
		}
	}
	c.Outcome(whole.kind + "|" + whole.exprs)
	if whole.kind != "ok" && whole.kind != "hard" {
		return
	}
	// (0) all pieces queued up front: 3, 4 and 5 pieces of equal length, and (short texts) every pair of cut positions
	if whole.kind == "ok" && len(rs) >= 3 {
		var splits [][]int
		for _, k := range []int{3, 4, 5} {
			if len(rs) >= k {
				var cut []int
				for q := 1; q < k; q++ {
					cut = append(cut, q*len(rs)/k)
				}
				splits = append(splits, cut)
			}
		}
		if len(rs) <= 14 {
			for i := 1; i < len(rs); i++ {
				for j := i + 1; j < len(rs); j++ {
					splits = append(splits, []int{i, j})
				}
			}
		}
		for _, cut := range splits {
			var pieces []string
			prev := 0
			for _, q := range cut {
				pieces = append(pieces, string(rs[prev:q]))
				prev = q
			}
			pieces = append(pieces, string(rs[prev:]))
			c.Count("queued_deliveries", 1)
			got := parseQueued(env, pieces)
			if got.kind == "panic" {
				viol("panic", fmt.Sprintf("pieces %q queued: %s", pieces, got.errTxt))
			} else if got.kind != "ok" || got.exprs != whole.exprs {
				viol("queued-pieces", fmt.Sprintf("text %q handed over as the queued pieces %q gives %s [%s] %s; whole gives [%s]", text, pieces, got.kind, got.exprs, got.errTxt, whole.exprs))
			}
		}
	}
	// (1) chunking
	for i := 1; i < len(rs); i++ {
		c.Count("cuts", 1)
		a, b := string(rs[:i]), string(rs[i:])
		got := parsePieces(env, []string{a, b})
		if got.kind == "panic" {
			viol("panic", fmt.Sprintf("cut at %d: %s", i, got.errTxt))
			continue
		}
		if got.pauses == 0 {
			// the parser took the prefix for a complete text. If the prefix of this (valid) text
			// ends inside a bracket, string, raw string or block comment it had to ask for more.
			if open, unknown := r8open(a); open && !unknown && whole.kind == "ok" {
				viol("no-pause-on-unfinished-prefix", fmt.Sprintf("text %q parses fine as a whole; its prefix %q is unfinished, but the parser returned %s %s instead of asking for more input", text, a, got.kind, got.errTxt))
			}
			continue
		}
		if got.kind != whole.kind || (got.exprs != whole.exprs && whole.kind == "ok") {
			viol("chunking", fmt.Sprintf("text %q cut at rune %d (%q | %q): pieces give %s [%s] %s, whole gives %s [%s] %s", text, i, a, b, got.kind, got.exprs, got.errTxt, whole.kind, whole.exprs, whole.errTxt))
		}
		if twoCuts {
			for j := i + 1; j < len(rs); j++ {
				c.Count("cuts", 1)
				got := parsePieces(env, []string{a, string(rs[i:j]), string(rs[j:])})
				if got.kind == "panic" {
					viol("panic", fmt.Sprintf("cuts at %d,%d: %s", i, j, got.errTxt))
					continue
				}
				if got.pauses < 2 {
					continue
				}
				if got.kind != whole.kind || (got.exprs != whole.exprs && whole.kind == "ok") {
					viol("chunking2", fmt.Sprintf("text %q cut at %d,%d: pieces give %s [%s], whole gives %s [%s]", text, i, j, got.kind, got.exprs, whole.kind, whole.exprs))
				}
			}
		}
	}
}

// ---- histories: earlier parses must not change how a later text is read

var c13residue = []string{`"abc`, "`raw", "/* open", "1e", "-", "a:", "~", "(+ 1 2)", ")", "(open 1", "'", "(+ 1 2) -", "ok 1 2", "", "#", "1e-", "x -1", "/",
	"(def x [1 2", "((", "(a /* c", "(f {a b", "[[1] [2", "(a \"s",
	// texts that end inside an escape sequence, or hold a malformed one
	`"ab\x4`, `"\u00e`, `'\x4`, `"\xZZ"`, `"\x41\x4`}
var c13probes = []string{"-1 ", "1e-3 ", "a:b ", "(list -1 2)", "~x ", "- 1 ", "(a -1)", "x:=1 ", "1 -1 ", "/ 2 ", `"\x41\u00e9" `, `'\x41' `}

func c13history(c *engine.Ctx, hist []int, record bool) string {
	env := zygo.NewZlisp()
	defer env.Close()
	w := "H|" + fmt.Sprint(hist)
	if record {
		c.Begin(w)
	}
	for _, h := range hist {
		parsePieces(env, []string{c13residue[h]})
	}
	if record {
		var names []string
		for _, h := range hist {
			names = append(names, c13residue[h])
		}
		for _, pr := range c13probes {
			got := parsePieces(env, []string{pr})
			fresh := zygo.NewZlisp()
			want := parsePieces(fresh, []string{pr})
			fresh.Close()
			if got.kind != want.kind || got.exprs != want.exprs {
				last := ""
				if len(hist) > 0 {
					last = c13residue[hist[len(hist)-1]]
				}
				c.Violation("history", "C13/history/"+last+"/"+pr, w, fmt.Sprintf("after parsing %q on the same interpreter, %q reads as %s [%s]; on a fresh interpreter as %s [%s]", names, pr, got.kind, got.exprs, want.kind, want.exprs))
			}
			// probing changes the residue: rebuild
			env.Close()
			env = zygo.NewZlisp()
			for _, h := range hist {
				parsePieces(env, []string{c13residue[h]})
			}
		}
	}
	return env.VerifLexerResidue()
}

// ---- the real REPL continuation loop: multi-line input on the standard input of cmd/zygo

// ¶ marks a place where the text continues on the next line; each is replaced by 1, 2 and 3 newlines (0, 1, 2
// completely empty lines).
var c13replForms = []string{"`a¶b`", "`a¶b¶c`", "\"x¶y\"", "/* c¶d */ 7", "(list 1¶2)", "[1¶2¶3]", "(str `p¶q`)", "(concat \"a¶\" `b¶c`)", "(quote (a¶b))", "(hash k:¶1)", "(len `¶`)", "(list `u¶v` \"w¶x\" /* y¶z */ 1)", "(+ 1¶ /* q */ ¶2)"}

func c13replTexts() []string {
	var out []string
	for _, f := range c13replForms {
		n := strings.Count(f, "¶")
		combos := 1
		for i := 0; i < n; i++ {
			combos *= 3
		}
		for m := 0; m < combos; m++ {
			t, x := f, m
			for i := 0; i < n; i++ {
				t = strings.Replace(t, "¶", strings.Repeat("\n", 1+x%3), 1)
				x /= 3
			}
			out = append(out, t)
		}
	}
	return out
}

func c13repl(c *engine.Ctx, only string) {
	bin := filepath.Join(os.TempDir(), fmt.Sprintf("c13zygo-%d", os.Getpid()))
	built := false
	defer func() {
		if built {
			os.Remove(bin)
		}
	}()
	for _, t := range c13replTexts() {
		w := "R|" + t
		if !(only == "" && c.Mine() || only == w) {
			continue
		}
		if !built {
			cmd := exec.Command("go", "build", "-o", bin, "./cmd/zygo")
			cmd.Dir = "/repo"
			cmd.Env = append(os.Environ(), "GOFLAGS=-mod=mod", "GOPROXY=off")
			if out, err := cmd.CombinedOutput(); err != nil {
				c.Note("repl-cli", "could not build cmd/zygo: "+clipS(string(out), 200))
				return
			}
			built = true
		}
		c.Begin(w)
		// what the text means, evaluated whole
		env := zygo.NewZlisp()
		env.StandardSetup()
		v, err := env.EvalString(t + "\n")
		var accept []string
		if err == nil && v != nil {
			if str, isStr := v.(*zygo.SexpStr); isStr {
				accept = []string{"`" + str.S + "`", strconv.Quote(str.S)}
			} else {
				accept = []string{v.SexpString(nil)}
			}
		}
		env.Close()
		if accept == nil {
			c.Count("repl_texts_not_evaluable", 1)
			continue
		}
		cm := exec.Command(bin, "-quiet", "-no-liner", "-sandbox")
		cm.Stdin = strings.NewReader(t + "\n")
		var buf bytes.Buffer
		cm.Stdout, cm.Stderr = &buf, &buf
		done := make(chan error, 1)
		if err := cm.Start(); err != nil {
			c.Note("repl-cli", err.Error())
			return
		}
		go func() { done <- cm.Wait() }()
		select {
		case <-done:
		case <-time.After(30 * time.Second):
			cm.Process.Kill()
			<-done
		}
		c.Count("repl_runs", 1)
		// strip the prompts and the final EOF line
		out := buf.String()
		out = strings.ReplaceAll(out, "zygo> ", "")
		out = strings.ReplaceAll(out, "... ", "")
		out = strings.TrimSuffix(out, "EOF\n")
		out = strings.TrimSuffix(out, "\n")
		ok := false
		for _, a := range accept {
			ok = ok || out == a
		}
		if !ok {
			c.Violation("repl-continuation", "C13/repl-continuation/"+clipS(strings.ReplaceAll(t, "\n", "¶"), 30), w, fmt.Sprintf("text %q typed line by line at the REPL prints %q; evaluated whole it is %q", t, out, accept[0]))
		}
		c.Outcome("R|" + t + "|" + out)
	}
}

func init() {
	engine.Register(&engine.Check{
		ID:    "C13",
		Level: "fault_enumeration",
		Rule: "texts = the 110 corpus scripts + a hand list + every string of <=3 (thorough 4) tokens over a 40-token alphabet joined with and without blanks; for every text: whole parse, parse with a trailing newline, " +
			"pause-iff-unfinished against an independent prefix scanner, every 1-cut (all rune positions) and, for texts <=60 runes (thorough 200), every 2-cut, pieces delivered only when the parser pauses (REPL protocol); " +
			"plus 13 multi-line forms (raw strings, strings, block comments, lists, infix) with 0, 1 or 2 empty lines at every line break, typed into the real REPL loop of cmd/zygo on stdin and compared with the whole-text evaluation; " +
			"plus BFS over histories of 29 residue-leaving inputs (incl. texts ending inside an escape sequence; depth 3, thorough 4) with 12 probe texts compared against a fresh interpreter, states keyed by the lexer/parser residue; distinct_nontrivial = distinct (result kind, expression list) of texts",
		Assumptions: []string{"a cut at which the parser does not pause is a complete prefix and is judged as a text of its own, not by the chunking clause",
			"pause-iff is not judged for texts ending inside a character literal or with mismatched brackets, nor for texts that raise a hard error"},
		Run: func(c *engine.Ctx) {
			env := zygo.NewZlisp()
			defer env.Close()
			max2 := 60
			k := 3
			if c.Thorough() {
				max2 = 200
				k = 4
			}
			texts := append(c13corpus(), c13hand...)
			if os.Getenv("VERIF_NOCORPUS") != "" {
				texts = c13hand
			}
			for _, t := range texts {
				if c.Expired() {
					return
				}
				if c.Mine() {
					c13text(c, env, t, len([]rune(t)) <= max2)
				}
			}
			c13genTexts(k, func(t string) {
				if c.Expired() {
					return
				}
				if c.Mine() {
					c13text(c, env, t, len([]rune(t)) <= max2)
				}
			})
			depth := 3
			if c.Thorough() {
				depth = 4
			}
			b := &explore.BFS{NOps: len(c13residue), Depth: depth, ShardLevel: 1, Step: func(h []int, record bool) (string, bool) {
				return c13history(c, h, record), true
			}}
			b.Run(c)
			c13repl(c, "")
		},
		Replay: func(c *engine.Ctx, w string) {
			if strings.HasPrefix(w, "R|") {
				c.NWorkers = 1
				c13repl(c, w)
			} else if strings.HasPrefix(w, "H|") {
				var hist []int
				for _, f := range strings.Fields(strings.Trim(w[2:], "[]")) {
					var x int
					fmt.Sscan(f, &x)
					hist = append(hist, x)
				}
				c13history(c, hist, true)
			} else {
				env := zygo.NewZlisp()
				defer env.Close()
				c13text(c, env, w[2:], len([]rune(w[2:])) <= 200)
			}
			for i := range c.Viol {
				c.Viol[i].Key = "*"
			}
		},
	})
}
