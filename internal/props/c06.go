package props

import (
	"fmt"
	"strings"

	"github.com/glycerine/zygomys/v9/zygo"

	"verif/internal/engine"
	"verif/internal/ref"
	"verif/internal/zy"
)

// C06 — infix blocks mean what the precedence table says.

const c06prelude = `(def a 7) (def b 3) (def c 2) (def i 1) (def u [1 0 2]) (def v [10 20 30]) (defn f [x] (+ x 100)) (def tr [])
(defn tt [k x] (begin (set tr (append tr k)) x)) (def w [(hash e: 5)]) (def h (hash e: 4 f: (hash g: 1))) (defn mk [x] (hash e: x))`

var c06binops = []string{"=", ":=", "+=", "-=", ",", "and", "or", "==", "!=", "<", "<=", ">", ">=", "+", "-", "*", "/", "mod", "**"}
var c06levelOps = []string{"=", ",", "and", "or", "==", "<", "+", "-", "*", "/", "**"}
var c06operandsFull = []string{"a", "b", "1", "2", "-1", "2.5", "1e3", "(f a)", "(tt 1 4)", "v[1]", "v[i]", "v[1:2]", "v[:2]", "v[1:]", "not a", "{ b * 2 }", "v[i+1]", "w[0].e", "h.e", "h.f.g", "(mk 3).e", "v[u[0]]", "v[not a]", "v[u[i]+1]", "0x1e", "0x1F", "0xe"}
var c06operandsSmall = []string{"a", "1", "-1", "(tt 1 4)", "v[1]", "w[0].e", "0x1e"}
var c06operandsTiny = []string{"a", "2", "-1"}

func isWordOp(op string) bool { return op == "and" || op == "or" || op == "mod" }

// render operands joined by operators with the given spacing style per
// operator: 0 both sides, 1 none, 2 left only, 3 right only.
func c06render(operands, ops []string, spacing []int) string {
	var sb strings.Builder
	sb.WriteString(operands[0])
	for i, op := range ops {
		sp := spacing[i]
		if isWordOp(op) {
			sp = 0
		}
		l, r := " ", " "
		switch sp {
		case 1:
			l, r = "", ""
		case 2:
			r = ""
		case 3:
			l = ""
		}
		sb.WriteString(l + op + r + operands[i+1])
	}
	return sb.String()
}

type c06env struct {
	tr *zy.Traced
}

func c06newEnv() *zy.Traced {
	tr := zy.NewTraced(true)
	zygo.VerifSetStepBudget(500000)
	r := tr.Run(c06prelude)
	if !r.OK() {
		panic("c06 prelude: " + r.String())
	}
	return tr
}

func c06state(tr *zy.Traced) string {
	var parts []string
	for _, n := range []string{"a", "b", "c", "i", "v", "tr"} {
		parts = append(parts, n+"="+tr.Run(n).Short())
	}
	return strings.Join(parts, " ")
}

// two interpreters are reused across cases (recreated every 300 cases); their
// variables are re-bound through the Go API before each case.
var c06pool [2]*zy.Traced
var c06poolUses int

func c06reset(tr *zy.Traced) {
	tr.Env.Clear()
	zygo.VerifSetStepBudget(500000)
	tr.Env.AddGlobal("a", &zygo.SexpInt{Val: 7})
	tr.Env.AddGlobal("b", &zygo.SexpInt{Val: 3})
	tr.Env.AddGlobal("c", &zygo.SexpInt{Val: 2})
	tr.Env.AddGlobal("i", &zygo.SexpInt{Val: 1})
	r := tr.Run("(def v (array 10 20 30)) (def tr (array))")
	if !r.OK() {
		panic("c06reset: " + r.String())
	}
}

func c06envs(fresh bool) (*zy.Traced, *zy.Traced, func()) {
	if fresh {
		a, b := c06newEnv(), c06newEnv()
		return a, b, func() { a.Env.Close(); b.Env.Close() }
	}
	if c06pool[0] == nil || c06poolUses >= 300 {
		for i := range c06pool {
			if c06pool[i] != nil {
				c06pool[i].Env.Close()
			}
			c06pool[i] = c06newEnv()
		}
		c06poolUses = 0
	}
	c06poolUses++
	c06reset(c06pool[0])
	c06reset(c06pool[1])
	return c06pool[0], c06pool[1], func() {}
}

func c06case(c *engine.Ctx, text string, class string) {
	w := text
	c.Begin(w)
	stmts, err := ref.R3Expand(text)
	if err != nil || len(stmts) == 0 {
		c.Count("skipped_not_wellformed", 1)
		return
	}
	viol := func(clause, detail string) {
		c.Violation(clause, "C06/"+clause+"/"+class, w, detail)
	}
	e1, e2, done := c06envs(c.Replaying)
	defer done()
	exp := e1.Run("(infixExpand {" + text + "})")
	want := "(quote " + strings.Join(stmts, " ") + ")"
	if exp.Panic != "" {
		viol("panic", exp.Panic)
		return
	}
	if exp.Err != "" {
		viol("expand-error", fmt.Sprintf("{%s}: the reference reading is %s, infixExpand failed: %s", text, want, exp.Err))
		return
	}
	got := exp.Sexp.SexpString(nil)
	if got != want {
		viol("tree", fmt.Sprintf("{%s} expands to %s; the precedence table gives %s", text, got, want))
		return
	}
	// evaluation: the block vs the prefix form
	v1 := e1.Run("{" + text + "}")
	s1 := c06state(e1)
	v2 := e2.Run("(begin " + strings.Join(stmts, " ") + ")")
	s2 := c06state(e2)
	if v1.Panic != "" {
		viol("panic", v1.Panic)
		return
	}
	if strings.Contains(want, "arrayidx") || strings.Contains(want, "hashidx") || strings.Contains(want, "(infix") || strings.Contains(want, "comma") {
		// the prefix spelling of selectors / nested blocks / comma is not source text of its own; judged by the tree only
		c.Outcome(class + "|" + got)
		return
	}
	if v1.Short() != v2.Short() || s1 != s2 {
		viol("value", fmt.Sprintf("{%s} evaluates to %s with %s; its prefix form %s evaluates to %s with %s", text, v1, s1, strings.Join(stmts, " "), v2, s2))
	}
	c.Outcome(class + "|" + got + "|" + v1.Short())
}

// go-style control forms: value/effect equivalence with hand-written prefix programs
var c06control = [][2]string{
	{`s = 0; for i := 0; i < 3; i++ { s += i }; s`, `(begin (set s 0) (for [(def i 0) (< i 3) (set i (+ i 1))] (set s (+ s i))) s)`},
	{`s = 0; for i = 0; i < 3; i++ { s += i }; i`, `(begin (set s 0) (for [(set i 0) (< i 3) (set i (+ i 1))] (set s (+ s i))) i)`},
	{`s = 0; for s < 5 { s += 2 }; s`, `(begin (set s 0) (for [nil (< s 5) nil] (set s (+ s 2))) s)`},
	{`s = 0; for { s++; if s > 3 { break } }; s`, `(begin (set s 0) (for [nil true nil] (set s (+ s 1)) (cond (> s 3) (break) nil)) s)`},
	{`s = 0; for k, x := range v { s += x }; s`, `(begin (set s 0) (for [(def k 0) (< k (len v)) (set k (+ k 1))] (set s (+ s (aget v k)))) s)`},
	{`s = 0; for k := range v { s += k }; s`, `(begin (set s 0) (for [(def k 0) (< k (len v)) (set k (+ k 1))] (set s (+ s k))) s)`},
	{`s = 0; for i := 0; i < 4; i++ { if i == 1 { continue }; if i == 3 { break }; s += i }; s`, `(begin (set s 0) (for [(def i 0) (< i 4) (set i (+ i 1))] (cond (== i 1) (continue) nil) (cond (== i 3) (break) nil) (set s (+ s i))) s)`},
	{`if a < b { 1 } else { 2 }`, `(cond (< a b) 1 2)`},
	{`if a > b { 1 } else { 2 }`, `(cond (> a b) 1 2)`},
	{`if a > b { c = 5 }; c`, `(begin (cond (> a b) (set c 5) nil) c)`},
	{`if a < b { 1 } else { if a == 7 { 3 } else { 4 } }`, `(cond (< a b) 1 (cond (== a 7) 3 4))`},
	{`s = 0; outer: for i := 0; i < 3; i++ { for j := 0; j < 3; j++ { if j == 1 { continue outer }; s++ } }; s`, `(begin (set s 0) (for outer: [(def i 0) (< i 3) (set i (+ i 1))] (for [(def j 0) (< j 3) (set j (+ j 1))] (cond (== j 1) (continue outer:) nil) (set s (+ s 1)))) s)`},
	{"/* c */ s = 0; outer: for i := 0; i < 3; i++ { for j := 0; j < 3; j++ { if j == 1 { continue outer }; s++ } }; s", `(begin (set s 0) (for outer: [(def i 0) (< i 3) (set i (+ i 1))] (for [(def j 0) (< j 3) (set j (+ j 1))] (cond (== j 1) (continue outer:) nil) (set s (+ s 1)))) s)`},
	{"/* lead */ outer: for i := 0; i < 2; i++ { for j := 0; j < 2; j++ { if j == 1 { break outer }; c = c + 1 } }; c", `(begin (for outer: [(def i 0) (< i 2) (set i (+ i 1))] (for [(def j 0) (< j 2) (set j (+ j 1))] (cond (== j 1) (break outer:) nil) (set c (+ c 1)))) c)`},
	{"// lead\nouter: for i := 0; i < 2; i++ { for j := 0; j < 2; j++ { if j == 1 { continue outer }; c = c + 10 } }; c", `(begin (for outer: [(def i 0) (< i 2) (set i (+ i 1))] (for [(def j 0) (< j 2) (set j (+ j 1))] (cond (== j 1) (continue outer:) nil) (set c (+ c 10)))) c)`},
	{`a = 1; b = a + 1; a + b`, `(begin (set a 1) (set b (+ a 1)) (+ a b))`},
	{`a = 1
b = a + 1
a + b`, `(begin (set a 1) (set b (+ a 1)) (+ a b))`},
	{`k = 0; s = 0; for k = range v { s += k }; s + k`, `(begin (set k 0) (set s 0) (for [(def q 0) (< q (len v)) (set q (+ q 1))] (set k q) (set s (+ s k))) (+ s k))`},
	{`k = 0; x = 0; s = 0; for k, x = range v { s += x }; s + k`, `(begin (set k 0) (set x 0) (set s 0) (for [(def q 0) (< q (len v)) (set q (+ q 1))] (set k q) (set x (aget v q)) (set s (+ s x))) (+ s k))`},
	{`a = 1; b = a + 1; nil`, `(begin (set a 1) (set b (+ a 1)) nil)`},
	{`a = 7; nil; a`, `(begin (set a 7) nil a)`},
	{`c = nil; c`, `(begin (set c nil) c)`},
	{`a = 1; true`, `(begin (set a 1) true)`},
	{`a = 1; false`, `(begin (set a 1) false)`},
	{`a++; a`, `(begin (set a (+ a 1)) a)`},
	{`a--; a -= 2; a`, `(begin (set a (- a 1)) (set a (- a 2)) a)`},
}

func c06controlCase(c *engine.Ctx, idx int, layoutStyle int) {
	p := c06control[idx]
	text := p[0]
	switch layoutStyle {
	case 1:
		if strings.Contains(text, "for ") {
			return // a go-style for header needs its semicolons
		}
		text = strings.ReplaceAll(text, "; ", "\n")
	case 2:
		text = strings.ReplaceAll(text, " ", "  ")
	}
	w := fmt.Sprintf("CTL|%d|%d", idx, layoutStyle)
	c.Begin(w)
	e1, e2 := c06newEnv(), c06newEnv()
	defer e1.Env.Close()
	defer e2.Env.Close()
	v1 := e1.Run("{" + text + "}")
	v2 := e2.Run(p[1])
	s1, s2 := e1.Run("(list a b c v)").Short(), e2.Run("(list a b c v)").Short()
	if v1.Short() != v2.Short() || s1 != s2 {
		c.Violation("control", fmt.Sprintf("C06/control/%d", idx), w, fmt.Sprintf("{%s} gives %s (state %s); the hand-written prefix program %s gives %s (state %s)", text, v1, s1, p[1], v2, s2))
	}
	c.Outcome("ctl|" + v1.Short())
}

func init() {
	engine.Register(&engine.Check{
		ID:    "C06",
		Level: "exploration",
		Rule: "every alternating sequence operand (op operand)^n: n=1 over 27 operands x 19 binary operators x 4 spacings; n=2 over 6 operands x 19^2 operators x 16 spacings; n=3 over 3 operands x 11^3 level-representative operators in 2 uniform spacings (thorough: 5 operands, 4 uniform spacings, n=4 over 2 operands x 11^4); " +
			"postfix ++/--, statement lists with ; / newline / blank separators; the expansion printed by (infixExpand {...}) must equal an independent tokeniser + precedence-climbing parse (R3), and the block's value and effects must equal those of the prefix form; " +
			"27 go-style for/if/assignment programs (incl. nil / true / false as whole statements) (incl. a label as the first thing of a block after a comment) x 3 layouts against hand-written prefix programs; 6 statements at every offset 0..64 of the text; distinct_nontrivial = distinct expansions",
		Assumptions: []string{"R3 encodes the binding powers and associativity stated in the property and the documented sign rule for -digit",
			"texts R3 rejects (two operators in a row ...) are skipped; prefix spelling of selectors, nested blocks and comma is judged by the tree only"},
		Run: func(c *engine.Ctx) {
			// n = 1
			for _, x := range c06operandsFull {
				for _, y := range c06operandsFull {
					for _, op := range c06binops {
						for sp := 0; sp < 4; sp++ {
							if isWordOp(op) && sp > 0 {
								continue
							}
							if c.Mine() {
								c06case(c, c06render([]string{x, y}, []string{op}, []int{sp}), "n1/"+op)
							}
						}
					}
				}
			}
			// postfix and statement lists
			for _, x := range []string{"a", "i"} {
				for _, pf := range []string{"++", "--"} {
					for _, sep := range []string{"; ", "\n", " ", ";"} {
						for _, y := range c06operandsSmall {
							if c.Mine() {
								c06case(c, x+pf+sep+y+" + "+x, "postfix/"+pf)
							}
							if c.Mine() {
								c06case(c, y+" + 1"+sep+x+pf+sep+x, "stmts/"+pf)
							}
						}
					}
				}
			}
			// constants as whole statements: first, middle, last
			for _, k := range []string{"nil", "true", "false", "0", `""`, "'c'"} {
				for _, sep := range []string{"; ", "\n", ";"} {
					for _, t := range []string{"a = 1" + sep + k, k + sep + "a = 1", "a = 1" + sep + k + sep + "b = 2", k, k + sep + k, "a" + sep + k, "a == " + k, "c = " + k + sep + "c"} {
						if c.Mine() {
							c06case(c, t, "stmts/const")
						}
					}
				}
			}
			// n = 2
			for _, x := range c06operandsSmall {
				for _, y := range c06operandsSmall {
					for _, z := range c06operandsSmall {
						for _, o1 := range c06binops {
							for _, o2 := range c06binops {
								if c.Expired() {
									return
								}
								for sp := 0; sp < 16; sp++ {
									if (isWordOp(o1) && sp%4 > 0) || (isWordOp(o2) && sp/4 > 0) {
										continue
									}
									if c.Mine() {
										c06case(c, c06render([]string{x, y, z}, []string{o1, o2}, []int{sp % 4, sp / 4}), "n2/"+o1+"/"+o2)
									}
								}
							}
						}
					}
				}
			}
			// n = 3
			ops3 := c06levelOps
			opnds := c06operandsTiny
			spacings := []int{0, 1}
			if c.Thorough() {
				opnds = c06operandsSmall
				spacings = []int{0, 1, 2, 3}
			}
			var rec func(operands, ops []string, n int)
			rec = func(operands, ops []string, n int) {
				if len(ops) == n {
					for _, sp := range spacings {
						spv := make([]int, n)
						for i := range spv {
							spv[i] = sp
						}
						if c.Mine() {
							c06case(c, c06render(operands, ops, spv), fmt.Sprintf("n%d/%s", n, strings.Join(ops, "/")))
						}
					}
					return
				}
				if c.Expired() {
					return
				}
				for _, op := range ops3 {
					for _, x := range opnds {
						rec(append(append([]string{}, operands...), x), append(append([]string{}, ops...), op), n)
					}
				}
			}
			for _, x := range opnds {
				rec([]string{x}, nil, 3)
			}
			if c.Thorough() {
				opnds = []string{"a", "-1"}
				spacings = []int{0, 1}
				for _, x := range opnds {
					rec([]string{x}, nil, 4)
				}
			}
			for i := range c06control {
				for st := 0; st < 3; st++ {
					if c.Mine() {
						c06controlCase(c, i, st)
					}
				}
			}
			// the same statement at every offset 0..64 of the text (the lexer looks back at earlier runes through a
			// fixed-size ring): leading blanks, and a preceding statement of growing length
			for _, stmt := range []string{"c = a-3", "c = a -3", "c = b+1", "c = v[i-1]", "c = a*-1", "c = a-b-1"} {
				for pad := 0; pad <= 64; pad++ {
					if c.Mine() {
						c06case(c, strings.Repeat(" ", pad)+stmt, "offset")
					}
					if c.Mine() {
						c06case(c, "b = "+strings.Repeat("1", 1+pad%18)+"; "+strings.Repeat(" ", pad/18)+stmt, "offset")
					}
				}
			}
		},
		Replay: func(c *engine.Ctx, w string) {
			if strings.HasPrefix(w, "CTL|") {
				var i, st int
				fmt.Sscanf(w, "CTL|%d|%d", &i, &st)
				c06controlCase(c, i, st)
			} else {
				c06case(c, w, "*")
			}
			for i := range c.Viol {
				c.Viol[i].Key = "*"
			}
		},
	})
}
