package props

import (
	"fmt"
	"strings"

	"github.com/glycerine/zygomys/v9/zygo"

	"verif/internal/engine"
	. "verif/internal/ref"
	"verif/internal/zy"
)

// C16 — lazy parameters delay, memoise and stay lexical; strict ones do not.

var c16names = []string{"a", "b", "c"}

// usage of a lazy parameter inside the body
var c16usage = []string{"none", "force", "force2", "subst", "closure", "shadow", "escape", "force-subst", "subst-force"}

func c16use(kind, p string) string {
	switch kind {
	case "none":
		return "0"
	case "force":
		return "(force " + p + ")"
	case "force2":
		return "(+ (force " + p + ") (force " + p + "))"
	case "subst":
		return "(str (substitute " + p + "))"
	case "closure":
		return "(fn [] (force " + p + "))"
	case "shadow":
		return "(let [v 777] (force " + p + "))"
	case "force-subst": // the source stays recoverable after the value has been computed
		return "(list (force " + p + ") (str (substitute " + p + ")))"
	case "subst-force":
		return "(list (str (substitute " + p + ")) (force " + p + "))"
	case "escape": // the thunk itself is returned and forced by the top level, twice
		return p
	}
	panic(kind)
}

func c16nth(i int, e string) string {
	switch i {
	case 0:
		return "(first " + e + ")"
	case 1:
		return "(second " + e + ")"
	}
	return "(first (rest (rest " + e + ")))"
}

var c16routes = []string{"name", "alias", "param", "computed", "apply", "map", "tail", "recursive", "strict-twin", "tail-redefined", "name-redefined"}

// c16program builds the program for one (signature, usages, route, failing
// argument, extra variadic arguments) point, or nil when the route does not apply.
// c16earlier is set by c16program for the *-redefined routes: a definition that must have been
// evaluated in an earlier EvalString (so that the interpreter already holds it when the new one is compiled).
var c16earlier string

// enumeration switches read by c16program (set by the enumerator and by replay)
var c16lazyRestName, c16quotedArgs, c16arrayArgs bool

func c16program(lazy []bool, use []string, variadic bool, route string, failAt int, extra int) []*T {
	c16earlier = ""
	zero := false
	if failAt == -2 { // no failing argument, and the arguments evaluate to the falsy value 0
		zero = true
		failAt = -1
	}
	k := len(lazy)
	var params, elems []string
	for i := 0; i < k; i++ {
		p := c16names[i]
		if lazy[i] {
			p = "#" + p
			elems = append(elems, c16use(use[i], p))
		} else {
			elems = append(elems, p)
		}
		params = append(params, p)
	}
	if variadic {
		// c16lazyRestName: the tail is written like a lazy formal (& #r); it is still an ordinary, strict tail
		rn := "r"
		if c16lazyRestName {
			rn = "#r"
		}
		params = append(params, "&", rn)
		elems = append(elems, rn)
	}
	body := "(list " + strings.Join(elems, " ") + ")"
	var args []string
	for i := 0; i < k; i++ {
		if i == failAt {
			args = append(args, "(fail 0)")
		} else {
			if zero {
				args = append(args, fmt.Sprintf("(t %d (- v 5))", i+1))
			} else if c16arrayArgs {
				// the argument is an array literal whose elements have to be evaluated (in the caller's scope, when forced)
				args = append(args, fmt.Sprintf("[v (t %d (+ v %d)) (+ v 1)]", i+1, i+1))
			} else if c16quotedArgs {
				// values that are not self-evaluating: forcing a wrapped *value* must not evaluate it again
				switch i % 3 {
				case 0:
					args = append(args, fmt.Sprintf("(t %d (quote (t %d 0)))", i+1, 70+i))
				case 1:
					args = append(args, fmt.Sprintf("(t %d (quote v))", i+1))
				default:
					args = append(args, fmt.Sprintf("(t %d [(quote (t %d 0)) v])", i+1, 75+i))
				}
			} else {
				args = append(args, fmt.Sprintf("(t %d (+ v %d))", i+1, i+1))
			}
		}
	}
	if variadic {
		for j := 0; j < extra; j++ {
			args = append(args, fmt.Sprintf("(t %d %d)", 8+j, 80+j))
		}
	} else if extra > 0 {
		return nil
	}
	as := strings.Join(args, " ")
	var def, call string
	ps := strings.Join(params, " ")
	switch route {
	case "name":
		def = "(defn lz [" + ps + "] " + body + ")"
		call = "(lz " + as + ")"
	case "alias":
		def = "(defn lz [" + ps + "] " + body + ") (def al lz)"
		call = "(al " + as + ")"
	case "param":
		def = "(defn lz [" + ps + "] " + body + ")"
		call = "((fn [g] (g " + as + ")) lz)"
	case "computed":
		def = "(defn lz [" + ps + "] " + body + ")"
		call = "(((fn [] lz)) " + as + ")"
	case "apply":
		def = "(defn lz [" + ps + "] " + body + ")"
		call = "(apply lz [" + as + "])"
	case "map":
		if k != 1 || extra > 0 {
			return nil
		}
		def = "(defn lz [" + ps + "] " + body + ")"
		call = "(first (map lz [" + as + "]))"
	case "tail", "recursive":
		var dummies []string
		for i := 0; i < k; i++ {
			dummies = append(dummies, fmt.Sprintf("(t %d 0)", 90+i))
		}
		rec := "(lz 0 " + as + ")"
		if route == "recursive" {
			rec = "(first (list " + rec + "))"
		}
		def = "(defn lz [n " + ps + "] (cond (== n 0) " + body + " " + rec + "))"
		// the outer call is made with v bound too, so that the inner arguments see a caller scope
		call = "(lz 1 " + strings.Join(dummies, " ") + ")"
		// arguments of the recursive call are evaluated inside lz: v must be visible there
		def = "(def v 5) " + def
	case "tail-redefined", "name-redefined":
		// the function replaces an earlier one of the same name whose lazy positions are the opposite
		var flipped []string
		for i := 0; i < k; i++ {
			p := c16names[i]
			if !lazy[i] {
				p = "#" + p
			}
			flipped = append(flipped, p)
		}
		if route == "name-redefined" {
			c16earlier = "(defn lz [" + strings.Join(flipped, " ") + "] 0)"
			def = "(defn lz [" + ps + "] " + body + ")"
			call = "(lz " + as + ")"
		} else {
			var dummies []string
			for i := 0; i < k; i++ {
				dummies = append(dummies, fmt.Sprintf("(t %d 0)", 90+i))
			}
			if variadic {
				return nil
			}
			c16earlier = "(defn lz [n " + strings.Join(flipped, " ") + "] 0)"
			def = "(def v 5) (defn lz [n " + ps + "] (cond (== n 0) " + body + " (lz 0 " + as + ")))"
			call = "(lz 1 " + strings.Join(dummies, " ") + ")"
		}
	case "strict-twin":
		// the same function without any lazy parameter: all arguments exactly once, in order
		for _, l := range lazy {
			if l {
				return nil
			}
		}
		def = "(defn lz [" + ps + "] " + body + ")"
		call = "(begin (lz " + as + ") (lz " + as + "))"
	}
	// closures returned in the list are called after the caller has returned
	post := "res"
	var posts []string
	for i := 0; i < k; i++ {
		if lazy[i] && use[i] == "closure" {
			posts = append(posts, "("+c16nth(i, "res")+")")
		}
	}
	escapes := false
	for i := 0; i < k; i++ {
		if lazy[i] && use[i] == "escape" {
			escapes = true
			posts = append(posts, "(force "+c16nth(i, "res")+")")
		}
	}
	if escapes {
		// res holds a thunk object (its printed form is not specified): show only what forcing gives
		post = "(list " + strings.Join(posts, " ") + " " + strings.Join(posts, " ") + ")"
	} else if len(posts) > 0 {
		post = "(list res " + strings.Join(posts, " ") + " " + strings.Join(posts, " ") + ")"
	}
	src := def + " (defn caller [v] " + call + ") (def res (caller 5)) " + post
	if route == "tail" || route == "recursive" || route == "tail-redefined" {
		src = def + " (def res " + call + ") " + post
	}
	return Parse(src)
}

func c16prelude() []*T { return Parse(`(def v 1000)`) }

// c16scenarios: a lazy argument that outlives its call is forced in several separate evaluations; a force that
// fails is not remembered, and a later force still sees the caller's bindings.
type c16scn struct {
	name  string
	steps [][2]string // text, expected (ERR = any error)
}

var c16scenarios = []c16scn{
	{"failed-force-then-success", [][2]string{
		{`(def ready false) (def loc 1000) (defn mk [#x] #x) (defn caller [loc] (mk (cond ready loc (fail 0)))) (def saved (caller 7)) 0`, "0"},
		{`(force saved)`, "ERR"}, {`(set ready true)`, "true"}, {`(force saved)`, "7"}, {`(force saved)`, "7"}, {`(str (substitute saved))`, `"(cond ready loc (fail 0))"`}}},
	{"failed-force-inside-function-then-success", [][2]string{
		{`(def ready false) (def loc 1000) (defn mk [#x] #x) (defn tryf [th] (force th)) (def saved (let [loc 7] (mk (cond ready (+ loc 1) (fail 0))))) 0`, "0"},
		{`(tryf saved)`, "ERR"}, {`(tryf saved)`, "ERR"}, {`(set ready true)`, "true"}, {`(tryf saved)`, "8"}, {`(set ready false)`, "false"}, {`(force saved)`, "8"}}},
	{"substitute-after-force", [][2]string{
		{`(defn lab [#x] (list (force #x) (str (substitute #x)) (force #x))) (lab (+ 2 3))`, `(5 "(+ 2 3)" 5)`},
		{`(defn mk [#x] #x) (def th (mk (+ 2 3))) (force th)`, "5"}, {`(str (substitute th))`, `"(+ 2 3)"`}, {`(force th)`, "5"}}},
	{"counted-once-across-evaluations", [][2]string{
		{`(def n 0) (defn mk [#x] #x) (def th (mk (begin (set n (+ n 1)) n))) n`, "0"}, {`(force th)`, "1"}, {`(force th)`, "1"}, {`n`, "1"}}},
}

// c16siteScenarios: the expression of a lazy argument is evaluated with the bindings of the place where the call was
// written -- the top level, a function, a let, a loop body -- however the receiver shadows the names it mentions.
func c16siteScenarios() []c16scn {
	sites := [][2]string{
		{"toplevel", `(def a 7) (recv (+ a 1))`}, {"function", `(def a 1000) (defn caller [a] (recv (+ a 1))) (caller 7)`}, {"let", `(def a 1000) (let [a 7] (recv (+ a 1)))`},
		{"toplevel-loop", `(def a 7) (def out 0) (for [(def i 0) (< i 1) (set i (+ i 1))] (set out (recv (+ a 1)))) out`}, {"toplevel-in-list", `(def a 7) (aget [(recv (+ a 1))] 0)`},
	}
	recvs := [][2]string{
		{"direct", `(defn recv [#x] (force #x))`}, {"shadow-let", `(defn recv [#x] (let [a 100] (force #x)))`}, {"shadow-param", `(defn recv [#x] ((fn [a] (force #x)) 100))`},
		{"saved-forced-in-other-function", `(def saved nil) (defn later [a] (force saved)) (defn recv [#x] (set saved #x) (later 50))`}, {"shadow-def", `(defn recv [#x] (def a 100) (force #x))`},
		{"twice-under-two-lets", `(defn recv [#x] (let [a 100] (force #x)) (let [a 200] (force #x)))`}, {"shadow-let-substitute", `(defn recv [#x] (let [a 100] (str (substitute #x))))`},
	}
	var out []c16scn
	for _, st := range sites {
		for _, rv := range recvs {
			want := "8"
			if rv[0] == "shadow-let-substitute" {
				want = `"(+ a 1)"` // substitute hands back the text
			}
			out = append(out, c16scn{"site/" + st[0] + "/" + rv[0], [][2]string{{rv[1] + " " + st[1], want}, {"(+ 1 2)", "3"}}})
		}
	}
	return out
}

func c16runScenarios(c *engine.Ctx, only string) {
	for _, sc := range append(append([]c16scn{}, c16scenarios...), c16siteScenarios()...) {
		w := "SCN|" + sc.name
		if !(only == "" && c.Mine() || only == w) {
			continue
		}
		c.Begin(w)
		tr := zy.NewTraced(false)
		zygo.VerifSetStepBudget(300000)
		for i, st := range sc.steps {
			r := tr.Run(st[0])
			if !r.OK() {
				tr.Env.Clear()
			}
			got := r.Short()
			if got != st[1] {
				c.Violation("scenario", "C16/scenario/"+sc.name, w, fmt.Sprintf("step %d %q gives %s, expected %s (steps so far: %q)", i+1, st[0], r, st[1], sc.steps[:i]))
				break
			}
		}
		tr.Env.Close()
		c.Outcome(w)
	}
}

func c16each(f func(lazy []bool, use []string, variadic bool)) {
	for k := 1; k <= 3; k++ {
		for mask := 0; mask < 1<<uint(k); mask++ {
			lazy := make([]bool, k)
			nl := 0
			for i := 0; i < k; i++ {
				lazy[i] = mask&(1<<uint(i)) != 0
				if lazy[i] {
					nl++
				}
			}
			total := 1
			for i := 0; i < nl; i++ {
				total *= len(c16usage)
			}
			for u := 0; u < total; u++ {
				use := make([]string, k)
				x := u
				for i := 0; i < k; i++ {
					if lazy[i] {
						use[i] = c16usage[x%len(c16usage)]
						x /= len(c16usage)
					}
				}
				for _, va := range []bool{false, true} {
					f(lazy, use, va)
				}
			}
		}
	}
}

func init() {
	engine.Register(&engine.Check{
		ID:    "C16",
		Level: "exploration",
		Rule: "every signature of 1..3 parameters each strict or lazy, with and without a variadic tail x every assignment of a usage {none, force, force twice, substitute, closure forcing after return, force under a shadowing let} " +
			"to the lazy parameters x 11 call routes {name, alias, parameter, computed callee, apply, map, tail self-call, non-tail recursion, strict twin called twice, and name / tail self-call after redefining a function whose lazy positions were the opposite} x {no failing argument, argument j fails} x {integer arguments, arguments whose values are lists / symbols / arrays, array-literal arguments} x 0..2 variadic extras x {tail named r, tail named #r}; " +
			"arguments are traced host calls reading the caller's variable; 5 call sites (top level, function, let, top-level loop, array literal) x 7 receivers that shadow the names the argument mentions (let, parameter, def, saved and forced inside another function); value, error and trace compared with the reference evaluator (thunk + memo + caller's scope)",
		Assumptions: []string{"R1 models lazy parameters as memoised thunks over the caller's scope; apply/map wrap evaluated values; the typed func declaration route is not generated"},
		Run: func(c *engine.Ctx) {
			c16runScenarios(c, "")
			c16each(func(lazy []bool, use []string, variadic bool) {
				for _, route := range c16routes {
					for failAt := -2; failAt < len(lazy); failAt++ {
						for extra := 0; extra <= 2; extra++ {
							for mi, mode := range [][2]bool{{false, false}, {true, false}, {false, true}, {false, false}} {
								if c.Expired() {
									return
								}
								if (mode[1] && !variadic) || (mode[0] && failAt == -2) {
									continue
								}
								if mi == 3 && failAt == -2 {
									continue
								}
								c16quotedArgs, c16lazyRestName, c16arrayArgs = mode[0], mode[1], mi == 3
								forms := c16program(lazy, use, variadic, route, failAt, extra)
								c16quotedArgs, c16lazyRestName, c16arrayArgs = false, false, false
								if forms == nil {
									continue
								}
								if !c.Mine() {
									continue
								}
								key := route
								if mode[0] {
									key += "/quoted-args"
								}
								if mode[1] {
									key += "/#rest"
								}
								if mi == 3 {
									key += "/array-literal-args"
								}
								for i, l := range lazy {
									if l {
										key += "," + use[i]
									} else {
										key += ",strict"
									}
								}
								if variadic {
									key += ",&"
								}
								pre := c16prelude()
								if c16earlier != "" {
									pre = append(pre, Parse(c16earlier)...)
								}
								res := diffProgram(c, "C16", pre, forms, 0, progOpts{keyExtra: key})
								if res.tr != nil {
									res.tr.Env.Close()
								}
							}
						}
					}
				}
			})
		},
		Replay: func(c *engine.Ctx, w string) {
			if strings.HasPrefix(w, "SCN|") {
				c16runScenarios(c, w)
				for i := range c.Viol {
					c.Viol[i].Key = "*"
				}
				return
			}
			replayProgram(c, "C16", c16prelude(), w, nil, progOpts{keyExtra: "*"})
			if len(c.Viol) == 0 {
				// a *-redefined witness needs the earlier definition with the opposite lazy positions
				_, forms := parseWitness(w)
				for _, f := range forms {
					if f.K == 'l' && len(f.L) > 2 && f.L[0].IsSym("defn") && f.L[1].IsSym("lz") {
						var flipped []string
						for _, p := range f.L[2].L {
							switch {
							case p.S == "n" || p.S == "&" || p.S == "r":
								flipped = append(flipped, p.S)
							case strings.HasPrefix(p.S, "#"):
								flipped = append(flipped, p.S[1:])
							default:
								flipped = append(flipped, "#"+p.S)
							}
						}
						pre := append(c16prelude(), Parse("(defn lz ["+strings.Join(flipped, " ")+"] 0)")...)
						replayProgram(c, "C16", pre, w, nil, progOpts{keyExtra: "*"})
					}
				}
			}
			for i := range c.Viol {
				c.Viol[i].Key = "*"
			}
		},
	})
}
