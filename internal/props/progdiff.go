package props

import (
	"fmt"
	"strconv"
	"strings"

	"github.com/glycerine/zygomys/v9/zygo"

	"verif/internal/engine"
	"verif/internal/ref"
	"verif/internal/zy"
)

// Shared differential runner: one program (a list of trees) is evaluated by
// the reference evaluator R1 and, rendered in a layout style, by the real
// interpreter; value, error class and host-call trace are compared.

const nStyles = 6

// layout renders the forms in one of the layout styles. All styles are
// legal spellings of the same token sequence.
func layout(forms []*ref.T, style int) string {
	var toks []string
	var walk func(t *ref.T)
	walk = func(t *ref.T) {
		switch t.K {
		case 'l', 'a':
			o, cl := "(", ")"
			if t.K == 'a' {
				o, cl = "[", "]"
			}
			toks = append(toks, o)
			for _, x := range t.L {
				walk(x)
			}
			toks = append(toks, cl)
		default:
			toks = append(toks, t.Text())
		}
	}
	for _, f := range forms {
		walk(f)
	}
	isOpen := func(s string) bool { return s == "(" || s == "[" }
	isClose := func(s string) bool { return s == ")" || s == "]" }
	var sb strings.Builder
	for i, tk := range toks {
		if i > 0 {
			prev := toks[i-1]
			switch style {
			case 0: // canonical
				if !(isOpen(prev) || isClose(tk)) {
					sb.WriteByte(' ')
				}
			case 1:
				sb.WriteByte('\n')
			case 2:
				sb.WriteString(" /* c */ ")
			case 3:
				sb.WriteString(" // c\n")
			case 4:
				sb.WriteString("\t  ")
			case 5: // no optional space
				if !(isOpen(prev) || isClose(tk) || isClose(prev) || isOpen(tk)) {
					sb.WriteByte(' ')
				}
			}
		}
		sb.WriteString(tk)
	}
	return sb.String()
}

// shapeKey: preorder list of list heads (excluding the trace calls), first n.
func shapeKey(forms []*ref.T, n int) string {
	var heads []string
	var walk func(t *ref.T)
	walk = func(t *ref.T) {
		if t.K == 'l' && len(t.L) > 0 && t.L[0].K == 'y' {
			h := t.L[0].S
			if h != "t" && h != "h" {
				heads = append(heads, h)
			}
		}
		for _, x := range t.L {
			walk(x)
		}
	}
	for _, f := range forms {
		walk(f)
	}
	if len(heads) > n {
		heads = heads[:n]
	}
	return strings.Join(heads, ",")
}

type progOpts struct {
	std      bool
	failAt   int
	panicK   bool
	budget   int64
	keyDepth int
	fixedKey string // probes of recorded findings report under this key
	r1Fuel   int
	r1Depth  int
	sugar    bool   // write (syntaxQuote x) / (unquote x) / (unquote-splicing x) with the reader sugar ^ ~ ~@
	keyExtra string // replaces the shape part of the violation key
	onEnv    func(tr *zy.Traced)
}

type progResult struct {
	skipped bool
	model   ref.Outcome
	impl    zy.Res
	trace   []string
	tr      *zy.Traced
	r1      *ref.R1
}

func witnessOf(style int, prelude, forms []*ref.T) string {
	var parts []string
	for _, f := range forms {
		parts = append(parts, f.Text())
	}
	return strconv.Itoa(style) + "|" + strings.Join(parts, " ")
}

func parseWitness(w string) (style int, forms []*ref.T) {
	i := strings.Index(w, "|")
	style, _ = strconv.Atoi(w[:i])
	return style, ref.Parse(w[i+1:])
}

// diffProgram runs prelude+forms on both sides and reports disagreements.
// The interpreter is left open in the result so callers can probe further;
// callers must Close it.
func diffProgram(c *engine.Ctx, id string, prelude, forms []*ref.T, style int, o progOpts) progResult {
	w := witnessOf(style, prelude, forms)
	c.Begin(w)
	r1 := ref.NewR1()
	r1.FailAt = o.failAt
	if o.r1Fuel > 0 {
		r1.Fuel = o.r1Fuel
	}
	if o.r1Depth > 0 {
		r1.MaxDepth = o.r1Depth
	}
	if _, un := r1.RunProgram(prelude); un != "" {
		panic("prelude unmodelled: " + un)
	}
	r1.Trace = nil
	r1.AllowSelfShadow = o.fixedKey != ""
	mo, un := r1.RunProgram(forms)
	if un != "" {
		c.Count("skipped_unmodelled", 1)
		c.Count("skipped:"+strings.SplitN(un, " ", 2)[0], 1)
		return progResult{skipped: true}
	}
	tr := zy.NewTraced(o.std)
	tr.FailAt = o.failAt
	tr.PanicKind = o.panicK
	budget := o.budget
	if budget == 0 {
		budget = 300000
	}
	zygo.VerifSetStepBudget(budget)
	pr := tr.Run(layout(prelude, 0))
	if !pr.OK() {
		panic("prelude failed on the implementation: " + pr.String())
	}
	tr.Trace = nil
	tr.HCalls = 0
	if o.onEnv != nil {
		o.onEnv(tr)
	}
	text := layout(forms, style)
	if o.sugar {
		ref.Sugar = true
		var parts []string
		for _, f := range forms {
			parts = append(parts, f.Text())
		}
		ref.Sugar = false
		text = strings.Join(parts, " ")
	}
	res := tr.Run(text)
	kd := o.keyDepth
	if kd == 0 {
		kd = 3
	}
	sk := shapeKey(forms, kd)
	if o.keyExtra != "" {
		sk = o.keyExtra
	}
	viol := func(clause, detail string) {
		key := id + "/" + clause + "/" + sk
		if o.fixedKey != "" {
			key = o.fixedKey
		}
		c.Violation(clause, key, w, detail+"\n  program: "+text)
	}
	mt := strings.Join(mo.Trace, ",")
	it := strings.Join(tr.Trace, ",")
	switch {
	case res.Panic != "":
		viol("panic", "the interpreter panicked: "+res.Panic)
	case res.Budget:
		viol("nontermination", "step budget exceeded; reference evaluator terminates with "+fmt.Sprint(mo.Val, mo.Err))
	case mo.Err == nil && res.Err != "":
		viol("unexpected-error", fmt.Sprintf("reference value %s, interpreter error: %s", mo.Val, res.Err))
	case mo.Err != nil && res.Err == "":
		viol("missing-error", fmt.Sprintf("reference raises %v, interpreter returned %s", mo.Err, res.String()))
	case mo.Err == nil && res.Val != mo.Val:
		viol("value", fmt.Sprintf("reference value %s, interpreter value %s", mo.Val, res.Val))
	case mo.Err != nil && mo.Err.Class == "user" && !strings.Contains(res.Err, mo.Err.Msg):
		viol("error-identity", fmt.Sprintf("reference raises the host error %q, interpreter raised: %s", mo.Err.Msg, res.Err))
	}
	if res.Panic == "" && !res.Budget && mt != it {
		viol("trace", fmt.Sprintf("host calls in order: reference [%s], interpreter [%s]", mt, it))
	}
	oc := res.Short()
	if mo.Err != nil {
		oc = "ERR:" + mo.Err.Class
	}
	if len(mo.Trace) > 0 || mo.Err != nil {
		c.Outcome(sk + "|" + oc + "|" + mt)
	} else {
		c.Outcome(sk + "|" + oc)
	}
	return progResult{model: mo, impl: res, trace: tr.Trace, tr: tr, r1: r1}
}

// probe is a specific program kept for a recorded finding: the grammars
// exclude its pattern, the probe re-checks it on every run under a fixed key.
type probe struct {
	key string
	src string
}

func runProbes(c *engine.Ctx, id string, prelude []*ref.T, probes []probe) {
	if c.Worker != 0 {
		return
	}
	for _, p := range probes {
		res := diffProgram(c, id, prelude, ref.Parse(p.src), 0, progOpts{fixedKey: p.key})
		if res.tr != nil {
			res.tr.Env.Close()
		}
		c.Count("finding_probes", 1)
	}
}

// replayProgram is the common Replay body of the program-differential checks.
func replayProgram(c *engine.Ctx, id string, prelude []*ref.T, w string, probes []probe, o progOpts) {
	style, forms := parseWitness(w)
	// a probe replays under its fixed key
	txt := witnessOf(style, nil, forms)
	for _, p := range probes {
		if witnessOf(0, nil, ref.Parse(p.src)) == txt {
			o.fixedKey = p.key
		}
	}
	res := diffProgram(c, id, prelude, forms, style, o)
	if res.tr != nil {
		res.tr.Env.Close()
	}
}

type tracedRun struct {
	tr *zy.Traced
	r  zy.Res
}

// runTraced evaluates prelude, extra setup text and the forms on a fresh
// standard interpreter with the traced host functions.
func runTraced(prelude, forms []*ref.T, setup string) tracedRun {
	return runTracedText(prelude, layout(forms, 0), setup)
}

func runTracedText(prelude []*ref.T, text string, setup string) tracedRun {
	tr := zy.NewTraced(false)
	zygo.VerifSetStepBudget(500000)
	if r := tr.Run(layout(prelude, 0)); !r.OK() {
		panic("prelude failed: " + r.String())
	}
	if setup != "" {
		tr.Run(setup)
	}
	tr.Trace = nil
	return tracedRun{tr: tr, r: tr.Run(text)}
}
