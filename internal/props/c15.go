package props

import (
	"fmt"
	"strings"

	"github.com/glycerine/zygomys/v9/zygo"

	"verif/internal/engine"
	"verif/internal/gen"
	. "verif/internal/ref"
	"verif/internal/zy"
)

// C15 — macro templates expand by exact substitution.

func c15prelude() []*T {
	return Parse(`(def x 5) (def n 3) (def xs (list 1 2)) (def e (list)) (def one (list 9)) (def sy (quote q)) (def st "s") (def ar [7 8]) (def nested (list 1 (list 2 3)))`)
}

func uq(e *T) *T  { return L(Sym("unquote"), e) }
func uqs(e *T) *T { return L(Sym("unquote-splicing"), e) }

func c15leaves() []*T {
	return []*T{Sym("a"), Int(7), Str("s"), QSym("k"),
		uq(Sym("x")), uq(Sym("st")), uq(Sym("sy")), uq(Sym("xs")), uq(Sym("ar")), uq(Sym("e")),
		uqs(Sym("xs")), uqs(Sym("e")), uqs(Sym("one")), uqs(Sym("nested")),
		uq(p1(`(+ n 1)`)), uqs(p1(`(list n n)`)), uq(p1(`(list n (quote a))`)), uqs(p1(`(rest xs)`)), uq(gen.T1(Int(4))), uqs(Call("list", gen.T1(Int(6)))),
		L(Sym("syntaxQuote"), L(Sym("b"), uq(Sym("x")))), L(Sym("syntaxQuote"), A(uqs(Sym("xs")), Sym("c")))}
}

// containers of width 1..w over the given element pool
func c15containers(pool []*T, w int, f func(*T) bool) bool {
	for _, kind := range []byte{'l', 'a'} {
		idx := make([]int, 0, w)
		var rec func(depth int) bool
		rec = func(depth int) bool {
			if depth > 0 {
				t := &T{K: kind}
				for _, i := range idx {
					t.L = append(t.L, pool[i])
				}
				if !f(t) {
					return false
				}
			}
			if depth == w {
				return true
			}
			for i := range pool {
				idx = append(idx, i)
				if !rec(depth + 1) {
					return false
				}
				idx = idx[:len(idx)-1]
			}
			return true
		}
		if !rec(0) {
			return false
		}
	}
	return true
}

// srcOf writes forms with the reader sugar (the only spelling of a splice: "unquote-splicing" is not a lexable symbol).
func srcOf(forms []*T) string {
	Sugar = true
	defer func() { Sugar = false }()
	var parts []string
	for _, f := range forms {
		parts = append(parts, f.Text())
	}
	return strings.Join(parts, " ")
}

func c15case(c *engine.Ctx, tmplT *T, sugar bool, class string) {
	prog := gen.Renumber(L(Sym("syntaxQuote"), tmplT))
	res := diffProgram(c, "C15", c15prelude(), []*T{prog}, 0, progOpts{sugar: true, keyExtra: class})
	if res.tr != nil {
		res.tr.Env.Close()
	}
}

// ---- macros: the call must behave like the hand-written expansion

type c15macro struct {
	name   string
	params string
	tmpl   string // template (explicit unquote forms); parameters are p, q and the rest parameter body
	twin   bool   // the expansion uses syntax R1 does not read (parenthesised assignment): judged against the hand expansion run on the implementation
}

var c15macros = []c15macro{
	{"inc", "[p]", `(+ (unquote p) 1)`, false},
	{"twice", "[p]", `(list (unquote p) (unquote p))`, false},
	{"swap", "[p q]", `(list (unquote q) (unquote p))`, false},
	{"prog", "[& body]", `(begin (unquote-splicing body))`, false},
	{"prog2", "[p & body]", `(let [w (unquote p)] (unquote-splicing body) w)`, false},
	{"unless", "[p & body]", `(cond (unquote p) nil (begin (unquote-splicing body)))`, false},
	{"arr", "[p & body]", `[(unquote p) (unquote-splicing body) 0]`, false},
	{"setter", "[p q]", `(set (unquote p) (unquote q))`, false},
	{"deflocal", "[p q]", `(def (unquote p) (unquote q))`, false},
	{"loop2", "[& body]", `(for [(def i 0) (< i 2) (set i (+ i 1))] (unquote-splicing body))`, false},
	{"fnwrap", "[p]", `((fn [z] (+ z (unquote p))) 10)`, false},
	{"nest", "[p q]", `(list (list (unquote p)) [(unquote q) (list (unquote p))])`, false},
	// expansions that leave the surrounding loop or re-enter the surrounding function: the compiler has to know how
	// many scopes the call site is nested in
	{"brk", "[p]", `(cond (unquote p) (break) nil)`, false},
	{"cont", "[p]", `(cond (unquote p) (continue) nil)`, false},
	{"recur", "[p]", `(cond (== n 0) (unquote p) (user (- n 1)))`, false},
	// expansions that are not call forms: a parenthesised assignment, a bare symbol, an array
	{"assign", "[p q]", `((unquote p) = (unquote q))`, true},
	{"assign2", "[p q]", `(begin ((unquote p) := (unquote q)) (unquote p))`, true},
	{"bare", "[p]", `(unquote p)`, false},
}

// substitute the macro's template by hand (R4 on forms)
func c15expand(m c15macro, args []*T) *T {
	params := p1(m.params)
	bind := map[string]*T{}
	var rest []*T
	restName := ""
	names := params.L
	for i := 0; i < len(names); i++ {
		if names[i].S == "&" {
			restName = names[i+1].S
			rest = args[i:]
			break
		}
		bind[names[i].S] = args[i]
	}
	var sub func(t *T) []*T
	sub = func(t *T) []*T {
		if t.K == 'l' && len(t.L) == 2 && t.L[0].K == 'y' {
			if t.L[0].S == "unquote" {
				if b, ok := bind[t.L[1].S]; ok {
					return []*T{b}
				}
			}
			if t.L[0].S == "unquote-splicing" && t.L[1].S == restName {
				return rest
			}
		}
		if len(t.L) == 0 {
			return []*T{t}
		}
		cp := &T{K: t.K, S: t.S, I: t.I}
		for _, x := range t.L {
			cp.L = append(cp.L, sub(x)...)
		}
		return []*T{cp}
	}
	return sub(p1(m.tmpl))[0]
}

func c15argForms() []*T {
	return []*T{gen.T1(Int(1)), gen.T1(Int(0)), Sym("x"), p1(`(+ n 1)`), Sym("gv"), p1(`(== j 1)`)}
}

// call sites: the macro call $1 in different surroundings
func c15sites() []gen.Ctx {
	return []gen.Ctx{
		tmpl("top", 1, `$1`),
		tmpl("in-fn", 1, `((fn [x] $1) 50)`),
		tmpl("in-defn", 1, `(begin (defn user [n] $1) (user 7))`),
		tmpl("in-loop", 1, `(begin (def acc []) (for [(def j 0) (< j 2) (set j (+ j 1))] (set acc (append acc $1))) acc)`),
		tmpl("in-let", 1, `(let [x 40 n 41] $1)`),
		tmpl("in-arg", 1, `(list 1 $1 2)`),
		tmpl("in-cond", 1, `(cond (== n 3) $1 0)`),
		tmpl("in-loop-let", 1, `(begin (def acc []) (for [(def j 0) (< j 3) (set j (+ j 1))] (let [q j] $1 (set acc (append acc q)))) (list acc gv))`),
		tmpl("in-fn-loop-newscope", 1, `(begin (defn user [n] (begin (def acc []) (for [(def j 0) (< j 3) (set j (+ j 1))] (newScope (def q j) $1 (set acc (append acc q)))) (list acc n))) (list (user 7) gv))`),
		tmpl("in-defn-let-newscope", 1, `(begin (defn user [n] (let [q n] (newScope $1))) (list (user 2) gv))`),
	}
}

func c15idx(m c15macro, args []*T, site *gen.Ctx) string {
	mi := 0
	for i, x := range c15macros {
		if x.name == m.name {
			mi = i
		}
	}
	var ai []string
	for _, a := range args {
		for j, f := range c15argForms() {
			if f.Text() == a.Text() {
				ai = append(ai, fmt.Sprint(j))
				break
			}
		}
	}
	si := -1
	if site != nil {
		for i, x := range c15sites() {
			if x.Name == site.Name {
				si = i
			}
		}
	}
	return fmt.Sprintf("%d|%d|%s", mi, si, strings.Join(ai, ","))
}

func c15macroCase(c *engine.Ctx, m c15macro, args []*T, site gen.Ctx, viaOuter bool) {
	if (m.name == "brk" || m.name == "cont") && (viaOuter || (site.Name != "in-loop-let" && site.Name != "in-fn-loop-newscope")) {
		// break/continue are resolved when the enclosing form is compiled: outside a loop, or in an argument of a
		// call (arguments are compiled when the call runs), they are rejected whether or not they would execute.
		// Only statement positions inside a loop are compared.
		return
	}
	idxw := fmt.Sprintf("M|%s|%v|", c15idx(m, args, &site), viaOuter)
	// implementation side: defmac + call; reference side: the expansion written by hand
	args = renumberAll(args) // number the traced calls once: a duplicated argument form keeps its id
	call := &T{K: 'l', L: append([]*T{Sym(m.name)}, args...)}
	expansion := c15expand(m, args)
	def := L(Sym("defmac"), Sym(m.name), p1(m.params), L(Sym("syntaxQuote"), p1(m.tmpl)))
	implForms := []*T{def}
	callForm, refForm := call, expansion
	if viaOuter {
		// the call appears inside another macro's expansion
		implForms = append(implForms, p1(`(defmac outer [form] (syntaxQuote (list 100 (unquote form))))`))
		callForm = L(Sym("outer"), call)
		refForm = L(Sym("list"), Int(100), expansion)
	}
	implForms = append(implForms, site.Build([]*T{callForm}))
	refForms := []*T{site.Build([]*T{refForm})}
	key := m.name + "/" + site.Name
	if viaOuter {
		key += "/outer"
	}
	w := idxw + srcOf(implForms)
	c.Begin(w)
	// reference: R1 on the hand expansion
	r1 := NewR1()
	r1.RunProgram(c15prelude())
	r1.RunProgram(Parse(`(def gv 0)`))
	r1.Trace = nil
	mo, un := r1.RunProgram(refForms)
	res := runTracedText(c15prelude(), srcOf(implForms), `(def gv 0)`)
	defer res.tr.Env.Close()
	viol := func(clause, detail string) {
		c.Violation(clause, "C15/macro-"+clause+"/"+key, w, detail+"\n  macro call program: "+srcOf(implForms)+"\n  hand expansion:    "+srcOf(refForms))
	}
	if un != "" || m.twin {
		// forms the reference evaluator does not model (parenthesised assignment ...): "calling the macro equals
		// writing the returned form by hand" is judged on the implementation itself, macro call vs hand expansion
		c.Count("judged_against_hand_expansion_on_the_implementation", 1)
		twin := runTracedText(c15prelude(), srcOf(refForms), `(def gv 0)`)
		defer twin.tr.Env.Close()
		tt, it := strings.Join(twin.tr.Trace, ","), strings.Join(res.tr.Trace, ",")
		if res.r.Budget || twin.r.Budget {
			// (an exponential recursion; a macro call in argument position is expanded every time the call runs, so the two
			// sides do not use the same number of VM steps)
			c.Count("twin_step_budget_exceeded_not_judged", 1)
			return
		}
		switch {
		case res.r.Panic != "":
			viol("panic", res.r.Panic)
		case (twin.r.Err == "") != (res.r.Err == ""):
			viol("twin-error", fmt.Sprintf("hand expansion gives %s, macro call gives %s", twin.r, res.r))
		case twin.r.Err == "" && twin.r.Val != res.r.Val:
			viol("twin-value", fmt.Sprintf("hand expansion gives %s, macro call gives %s", twin.r.Val, res.r.Val))
		case tt != it:
			viol("twin-trace", fmt.Sprintf("effects: hand expansion [%s], macro call [%s]", tt, it))
		}
		gv1, gv2 := res.tr.Run("(list gv (defined? (quote x)))"), twin.tr.Run("(list gv (defined? (quote x)))")
		if gv1.Short() != gv2.Short() {
			viol("twin-state", fmt.Sprintf("afterwards (list gv (defined? x)) is %s after the macro call, %s after the hand expansion", gv1, gv2))
		}
		c.Outcome(key + "|twin|" + res.r.Short() + "|" + it)
		return
	}
	mt, it := strings.Join(mo.Trace, ","), strings.Join(res.tr.Trace, ",")
	switch {
	case res.r.Panic != "":
		viol("panic", res.r.Panic)
	case mo.Err == nil && res.r.Err != "":
		viol("unexpected-error", fmt.Sprintf("hand expansion gives %s, macro call fails: %s", mo.Val, res.r.Err))
	case mo.Err != nil && res.r.Err == "":
		viol("missing-error", fmt.Sprintf("hand expansion raises %v, macro call gives %s", mo.Err, res.r))
	case mo.Err == nil && res.r.Val != mo.Val:
		viol("value", fmt.Sprintf("hand expansion gives %s, macro call gives %s", mo.Val, res.r.Val))
	}
	if mt != it && res.r.Panic == "" {
		viol("trace", fmt.Sprintf("effects: hand expansion [%s], macro call [%s]", mt, it))
	}
	d := res.tr.Env.VerifDepths()
	if res.r.OK() && !atRest(d) {
		viol("not-at-rest", depthsStr(d))
	}
	c.Outcome(key + "|" + res.r.Short() + "|" + it)
}

func renumberAll(forms []*T) []*T {
	wrapped := gen.Renumber(&T{K: 'l', L: forms})
	return wrapped.L
}

// macexpand must leave the calling interpreter untouched
func c15expandOnly(c *engine.Ctx, m c15macro, args []*T) {
	idxw := "X|" + c15idx(m, args, nil) + "|"
	args = renumberAll(args)
	call := &T{K: 'l', L: append([]*T{Sym(m.name)}, args...)}
	def := L(Sym("defmac"), Sym(m.name), p1(m.params), L(Sym("syntaxQuote"), p1(m.tmpl)))
	forms := []*T{def}
	w := idxw + srcOf(forms) + " ## " + call.Text()
	c.Begin(w)
	res := runTracedText(c15prelude(), srcOf(forms), `(def gv 0)`)
	defer res.tr.Env.Close()
	env := res.tr.Env
	before := depthsStr(env.VerifDepths()) + "|" + strings.Join(env.VerifGlobalNames(), ",")
	res.tr.Trace = nil
	r := res.tr.Run("(macexpand " + call.Text() + ")")
	after := depthsStr(env.VerifDepths()) + "|" + strings.Join(env.VerifGlobalNames(), ",")
	want := "(quote " + strings.TrimSuffix(strings.TrimPrefix(c15expand(m, args).Text(), "("), ")") + ")"
	if c15expand(m, args).K != 'l' {
		want = "" // (quote . [..]) and (quote . atom) print differently; judged by the call form
	}
	key := m.name
	if r.Panic != "" {
		c.Violation("panic", "C15/macexpand-panic/"+key, w, r.Panic)
		return
	}
	if before != after {
		c.Violation("macexpand-state", "C15/macexpand-state/"+key, w, fmt.Sprintf("macexpand changed the caller: before %s after %s", clipS(before, 200), clipS(after, 200)))
	}
	if len(res.tr.Trace) != 0 {
		c.Violation("macexpand-effects", "C15/macexpand-effects/"+key, w, fmt.Sprintf("macexpand evaluated the arguments: trace %v", res.tr.Trace))
	}
	if want != "" && r.OK() && r.Sexp.SexpString(nil) != want {
		c.Violation("macexpand-form", "C15/macexpand-form/"+key, w, fmt.Sprintf("macexpand gives %s, exact substitution gives %s", r.Sexp.SexpString(nil), want))
	}
	c.Outcome("X|" + key + "|" + r.Short())
}

// c15emptyHash: the one hash literal the reader itself produces, {}, at every position of small templates (the
// reference evaluator has no hash literals; the expected value is the template text with the unquotes substituted)
func c15emptyHash(c *engine.Ctx, only string) {
	subst := map[string]string{"~x": "5", "~@xs": "1 2", "~@e": "", "~st": `"s"`}
	elems := []string{"{}", "a", "~x", "~@xs", "~@e", "~st", "[{}]", "({} 1)"}
	var templates []string
	for _, open := range []string{"(", "["} {
		cl := ")"
		if open == "[" {
			cl = "]"
		}
		for _, a := range elems {
			templates = append(templates, open+a+cl)
			for _, b := range elems {
				if a == "{}" || b == "{}" || strings.Contains(a, "{}") || strings.Contains(b, "{}") {
					templates = append(templates, open+a+" "+b+cl)
					for _, d := range []string{"{}", "~x", "b"} {
						templates = append(templates, open+a+" "+b+" "+d+cl)
					}
				}
			}
		}
	}
	for _, tm := range templates {
		if !strings.Contains(tm, "{}") {
			continue
		}
		w := "E|" + tm
		if !(only == "" && c.Mine() || only == w) {
			continue
		}
		c.Begin(w)
		want := tm
		for k, v := range subst {
			want = strings.ReplaceAll(want, k, v)
		}
		want = strings.Join(strings.Fields(want), " ")
		want = strings.ReplaceAll(strings.ReplaceAll(want, "( ", "("), " )", ")")
		want = strings.ReplaceAll(strings.ReplaceAll(want, "[ ", "["), " ]", "]")
		res := runTracedText(c15prelude(), "^"+tm, `(def gv 0)`)
		got := res.r.Short()
		viol := func(clause, detail string) { c.Violation(clause, "C15/empty-hash-"+clause, w, detail) }
		if res.r.Panic != "" {
			viol("panic", res.r.Panic)
		} else if got != want {
			viol("template", fmt.Sprintf("^%s evaluates to %s, exact substitution gives %s", tm, res.r, want))
		}
		if d := res.tr.Env.VerifDepths(); res.r.OK() && !atRest(d) {
			viol("not-at-rest", fmt.Sprintf("after ^%s: %s", tm, depthsStr(d)))
		}
		// the next template on the same interpreter is unaffected
		if nx := res.tr.Run("^(p ~x q)"); nx.Short() != "(p 5 q)" {
			viol("next-template", fmt.Sprintf("after ^%s, ^(p ~x q) evaluates to %s", tm, nx))
		}
		// and as a macro body
		if mr := res.tr.Run("(defmac dh15 [nm] ^(def ~nm (quote " + tm + "))) (dh15 reg15) reg15"); mr.Short() != want {
			viol("macro", fmt.Sprintf("(defmac dh15 [nm] ^(def ~nm (quote %s))) (dh15 reg15) reg15 gives %s, expected %s", tm, mr, want))
		}
		res.tr.Env.Close()
		c.Outcome("E|" + tm + "|" + got)
	}
}

// c15fresh: every evaluation of a template builds its own containers: writing into the array of one expansion changes
// neither another expansion nor the next one.
func c15fresh(c *engine.Ctx, only string) {
	// template, path from the expansion to an array inside it ($ is the expansion)
	cases := [][2]string{{"[0 0 0]", "$"}, {"(a [0 0 0])", "(car (cdr $))"}, {"(~x [0 1])", "(car (cdr $))"}, {"[~x 0]", "$"}, {"[[0] 1]", "(aget $ 0)"}, {"[a b]", "$"}, {"[\"s\" 1.5]", "$"},
		{"([0] [0])", "(car $)"}, {"(~@xs [0 0])", "(car (cdr (cdr $)))"}, {"[]", "$"}, {"[nil]", "$"}, {"[true 'c']", "$"}}
	for _, cs := range cases {
		for _, route := range []string{"function", "macro-quote", "toplevel-loop"} {
			w := "FRESH|" + cs[0] + "|" + route
			if !(only == "" && c.Mine() || only == w) {
				continue
			}
			c.Begin(w)
			tr := zy.NewTraced(false)
			zygo.VerifSetStepBudget(200000)
			tr.Run(layout(c15prelude(), 0))
			tr.Run("(def x 5) (def xs (list 1 2))")
			switch route {
			case "function":
				tr.Run("(defn mk15 [] ^" + cs[0] + ") (def r1 (mk15)) (def r2 (mk15))")
			case "macro-quote":
				tr.Run("(defmac mk15 [] ^(quote " + strings.NewReplacer("~x", "5", "~@xs", "1 2").Replace(cs[0]) + ")) (def r1 (mk15)) (def r2 (mk15))")
			case "toplevel-loop":
				tr.Run("(def rs []) (for [(def i 0) (< i 2) (set i (+ i 1))] (set rs (append rs ^" + cs[0] + "))) (def r1 (aget rs 0)) (def r2 (aget rs 1))")
			}
			before := tr.Run("(str r2)")
			path1 := strings.ReplaceAll(cs[1], "$", "r1")
			wr := tr.Run("(def arr15 " + path1 + ") (set arr15 (append arr15 99)) (cond (> (len " + path1 + ") 0) (aset " + path1 + " 0 42) nil)")
			after := tr.Run("(str r2)")
			third := ""
			if route != "toplevel-loop" {
				third = tr.Run("(str (mk15))").Short()
			}
			tr.Env.Close()
			viol := func(clause, detail string) { c.Violation(clause, "C15/fresh-"+clause+"/"+route, w, detail) }
			switch {
			case before.Panic != "" || wr.Panic != "" || after.Panic != "":
				viol("panic", before.Panic+wr.Panic+after.Panic)
			case !before.OK() || !after.OK():
				c.Count("fresh_not_judged", 1)
			case before.Short() != after.Short():
				viol("shared", fmt.Sprintf("two expansions of ^%s (%s): after writing into the first one, the second one changed from %s to %s", cs[0], route, before, after))
			case third != "" && third != before.Short():
				viol("next", fmt.Sprintf("^%s (%s): after writing into the first expansion, the next expansion is %s instead of %s", cs[0], route, third, before))
			}
			c.Outcome("FRESH|" + cs[0] + "|" + route + "|" + after.Short())
		}
	}
}

func init() {
	engine.Register(&engine.Check{
		ID:    "C15",
		Level: "exploration",
		Rule: "templates: every list/array of width 1..2 over a pool of 22 leaves (literals, ~x for 6 bindings, ~@xs for 4 lists incl. empty and nested, ~(compound), ~@(compound), traced unquotes) and width-1..2 nested containers; width 3 over the leaves; " +
			"each in explicit form and with the reader sugar ^ ~ ~@; value compared with exact substitution (R4 inside the reference evaluator); the empty hash literal {} at every position of templates of width 1..3, also as a macro body; 12 templates x 3 routes (function body, macro over a quote, top-level loop) expanded twice, a write into a container of the first expansion must change neither the second nor the next one. Macros: 18 macros (three of them expanding to break / continue / a tail self-call, three to a parenthesised assignment / a bare symbol; forms R1 does not model are judged macro call vs hand expansion on the implementation) x all argument tuples over 6 forms x 10 call sites (top level, function, defn, loop, let, argument, cond, let inside a loop, newScope inside a loop inside a function, let+newScope inside a defn) x {direct, inside another macro's expansion}: " +
			"value/effects equal those of the hand-written expansion, stacks at rest; macexpand leaves depths and globals of the caller unchanged and prints the exact substitution",
		Assumptions: []string{"splicing a non-list and nested syntax-quotes are outside the modelled fragment (skipped)"},
		Run: func(c *engine.Ctx) {
			leaves := c15leaves()
			// nested containers of width 1..2 over the leaves
			var nested []*T
			c15containers(leaves, 2, func(t *T) bool { nested = append(nested, t); return true })
			pool2 := append(append([]*T{}, leaves...), nested...)
			n := 0
			run := func(t *T, class string) bool {
				n++
				if c.Mine() {
					c15case(c, t, n%2 == 0, class)
				}
				return !c.Expired()
			}
			c15containers(leaves, 3, func(t *T) bool { return run(t, "flat") })
			w2 := 2
			if !c.Thorough() {
				// quick: width 2 over leaves x nested (one nested element), not nested x nested
				for _, kind := range []byte{'l', 'a'} {
					for _, a := range nested {
						if !run(&T{K: kind, L: []*T{a}}, "nested1") {
							return
						}
						for _, b := range leaves {
							if !run(&T{K: kind, L: []*T{a, b}}, "nested-first") || !run(&T{K: kind, L: []*T{b, a}}, "nested-last") {
								return
							}
						}
					}
				}
			} else {
				c15containers(pool2, w2, func(t *T) bool { return run(t, "nested") })
			}
			c15emptyHash(c, "")
			c15fresh(c, "")
			// macros
			argf := c15argForms()
			for _, m := range c15macros {
				np := strings.Count(m.params, " ") + 1
				if strings.Contains(m.params, "&") {
					np = np - 1 // "& body" counts once; body gets 0..2 forms
				}
				var tuples [][]*T
				var rec func(cur []*T, k int)
				rec = func(cur []*T, k int) {
					if len(cur) == k {
						tuples = append(tuples, append([]*T{}, cur...))
						return
					}
					for _, a := range argf {
						rec(append(cur, a), k)
					}
				}
				if strings.Contains(m.params, "&") {
					fixed := np - 1
					for extra := 0; extra <= 2; extra++ {
						rec(nil, fixed+extra)
					}
				} else {
					rec(nil, np)
				}
				for _, tup := range tuples {
					if m.name == "setter" || m.name == "deflocal" {
						if tup[0].K != 'y' || tup[0].S != "gv" {
							continue // the target must be a variable name
						}
					}
					if c.Mine() {
						c15expandOnly(c, m, tup)
					}
					for _, site := range c15sites() {
						for _, outer := range []bool{false, true} {
							if c.Expired() {
								return
							}
							if c.Mine() {
								c15macroCase(c, m, tup, site, outer)
							}
						}
					}
				}
			}
		},
		Replay: func(c *engine.Ctx, w string) {
			if strings.HasPrefix(w, "FRESH|") {
				c15fresh(c, w)
				for i := range c.Viol {
					c.Viol[i].Key = "*"
				}
				return
			}
			if strings.HasPrefix(w, "E|") {
				c15emptyHash(c, w)
				for i := range c.Viol {
					c.Viol[i].Key = "*"
				}
				return
			}
			pick := func(mi int, ais string) (c15macro, []*T) {
				var args []*T
				for _, f := range strings.Split(ais, ",") {
					if f == "" {
						continue
					}
					var k int
					fmt.Sscan(f, &k)
					args = append(args, c15argForms()[k])
				}
				return c15macros[mi], args
			}
			switch {
			case strings.HasPrefix(w, "X|"):
				parts := strings.SplitN(w, "|", 5)
				var mi int
				fmt.Sscan(parts[1], &mi)
				m, args := pick(mi, parts[3])
				c15expandOnly(c, m, args)
			case strings.HasPrefix(w, "M|"):
				parts := strings.SplitN(w, "|", 6)
				var mi, si int
				fmt.Sscan(parts[1], &mi)
				fmt.Sscan(parts[2], &si)
				m, args := pick(mi, parts[3])
				c15macroCase(c, m, args, c15sites()[si], parts[4] == "true")
			default:
				_, forms := parseWitness(w)
				res := diffProgram(c, "C15", c15prelude(), forms, 0, progOpts{sugar: true, keyExtra: "*"})
				if res.tr != nil {
					res.tr.Env.Close()
				}
			}
			for i := range c.Viol {
				c.Viol[i].Key = "*"
			}
		},
	})
}
