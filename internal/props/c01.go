package props

import (
	"bytes"
	"fmt"
	"os"
	"os/exec"
	"path/filepath"
	"regexp"
	"runtime/debug"
	"sort"
	"strconv"
	"strings"
	"time"

	"github.com/glycerine/zygomys/v9/zygo"

	"verif/internal/engine"
)

// C01 — no input can crash the host: evaluation always returns a value or an error.

// functions of the full interpreter the harness keeps away from mutated scripts (they act on the outside world;
// "exit" ends the host by design and "stop" is its REPL twin)
// "dump" walks the whole Go object graph with a third-party printer: minutes per call, so it cannot be part of a sweep
var c01withheld = []string{"exit", "system", "writef", "owritef", "save", "bsave", "greenpack", "setenv", "dump"}

// The registry of struct types is process-wide: names declared by one interpreter are bound in every later one.
// Groups must not see each other's declarations (replays run one group in a fresh process), so the registry is
// put back to its initial content before every group; what one interpreter's declarations do to the next
// interpreter is explored on purpose by the (R) groups.
var c01regBase map[string]bool

func c01registryReset() {
	r := &zygo.GoStructRegistry
	if c01regBase == nil {
		c01regBase = map[string]bool{}
		for k := range r.Registry {
			c01regBase[k] = true
		}
		return
	}
	for k := range r.Registry {
		if !c01regBase[k] {
			delete(r.Registry, k)
			delete(r.Userdef, k)
		}
	}
}

func c01stub(env *zygo.Zlisp, name string, args []zygo.Sexp) (zygo.Sexp, error) {
	return zygo.SexpNull, fmt.Errorf("%s: withheld by the harness", name)
}

func c01env() *zygo.Zlisp {
	zygo.VerifSetStepBudget(0)
	funcs := zygo.AllBuiltinFunctions()
	for _, n := range c01withheld {
		funcs[n] = c01stub
	}
	env := zygo.NewZlispWithFuncs(funcs)
	env.StandardSetup()
	env.AddBuilder("sys", c01stub)
	return env
}

type c01out struct {
	class   string // value | error | budget | panic | timeout | gonil
	text    string
	stack   string // for panics: the library frames, innermost first
	blocked bool
}

var c01digits = regexp.MustCompile(`0x[0-9a-f]+|[0-9]+`)

func c01sig(p string) string {
	if i := strings.LastIndex(p, " @"); i >= 0 {
		p = p[i+2:] + ": " + p[:i]
	}
	p = c01digits.ReplaceAllString(p, "N")
	if i := strings.Index(p, "\n"); i >= 0 {
		p = p[:i]
	}
	if len(p) > 70 {
		p = p[:70]
	}
	return p
}

// c01frame names the library function that panicked: the first zygo frame below the runtime's panic frames.
func c01frame(stack string) string {
	lines := strings.Split(stack, "\n")
	after := false
	for _, l := range lines {
		if strings.HasPrefix(l, "panic(") {
			after = true
			continue
		}
		if after && strings.Contains(l, "/zygo.") && !strings.HasPrefix(l, "\t") {
			f := l[strings.Index(l, "/zygo.")+6:]
			if i := strings.LastIndex(f, "("); i > 0 {
				f = f[:i]
			}
			return f
		}
	}
	return "?"
}

func c01frames(stack string) string {
	var fs []string
	lines := strings.Split(stack, "\n")
	for i, l := range lines {
		if strings.Contains(l, "/zygo.") && !strings.HasPrefix(l, "\t") && i+1 < len(lines) {
			loc := strings.TrimSpace(lines[i+1])
			if j := strings.Index(loc, " +0x"); j > 0 {
				loc = loc[:j]
			}
			fs = append(fs, filepath.Base(loc))
		}
		if len(fs) >= 8 {
			break
		}
	}
	return strings.Join(fs, " < ")
}

const c01budget = 100000

// c01drive runs one text through one entry point of the library on env. A text that names a waiting primitive
// (channels, goroutines) runs on its own goroutine and is given up after 15 s (the goroutine stays blocked, which is
// harmless). Every other text runs synchronously: if it does not return, the engine's watchdog ends the worker after
// 90 s without progress and attributes the death to this execution (group witness + "#index"), which is then
// replayed alone three times before it is believed. (An abandoned goroutine that is still *running* would race with
// later executions on the process-wide type registry.)
func c01drive(env *zygo.Zlisp, entry string, text string) c01out {
	if !c01mayWait(text) {
		return c01driveSync(env, entry, text)
	}
	done := make(chan c01out, 1)
	go func() { done <- c01driveSync(env, entry, text) }()
	select {
	case o := <-done:
		return o
	case <-time.After(15 * time.Second):
		return c01out{class: "timeout"}
	}
}

func c01driveSync(env *zygo.Zlisp, entry string, text string) (o c01out) {
	func() {
		defer func() {
			if x := recover(); x != nil {
				st := string(debug.Stack())
				o = c01out{class: "panic", text: fmt.Sprint(x) + " @" + c01frame(st), stack: c01frames(st)}
			}
		}()
		zygo.VerifSetStepBudget(c01budget)
		var v zygo.Sexp
		var err error
		switch entry {
		case "eval":
			v, err = env.EvalString(text)
		case "load-run":
			err = env.LoadString(text)
			if err == nil {
				v, err = env.Run()
			}
		case "repl":
			// the REPL's path: parse the line (one continuation line if the parser asks), wrap in infix, evaluate
			p := env.VerifParser()
			p.ResetAddNewInput(bytes.NewBufferString(text + "\n"))
			xs, perr := p.ParseTokens()
			if perr == zygo.ErrMoreInputNeeded {
				p.NewInput(bytes.NewBufferString("\n"))
				xs, perr = p.ParseTokens()
			}
			if perr != nil {
				p.Reset()
				err = perr
				break
			}
			if len(xs) > 0 {
				wrapped := zygo.MakeList([]zygo.Sexp{env.MakeSymbol("infix"), &zygo.SexpArray{Val: xs, Env: env}})
				v, err = env.EvalExpressions([]zygo.Sexp{wrapped})
			} else {
				v, err = env.EvalString(env.ReplLineInfixWrap(text) + " ")
			}
		case "parse":
			p := env.VerifParser()
			p.ResetAddNewInput(bytes.NewBufferString(text))
			xs, perr := p.ParseTokens()
			p.Reset()
			err = perr
			if perr == nil {
				for _, x := range xs {
					if x != nil {
						_ = x.SexpString(nil)
					}
				}
				v = zygo.SexpNull
			}
		case "compile":
			err = env.LoadString(text)
			env.Clear()
			v = zygo.SexpNull
		}
		if err != nil {
			if strings.Contains(err.Error(), "verif: step budget exceeded") {
				env.Clear()
				o = c01out{class: "budget"}
				return
			}
			_ = env.GetStackTrace(err) // what the REPL and the script runner print
			env.Clear()
			o = c01out{class: "error", text: c01sig(err.Error())}
			return
		}
		if v == nil {
			o = c01out{class: "gonil"}
			return
		}
		if sel, ok := v.(zygo.Selector); ok {
			if rhs, e := sel.RHS(env); e == nil && rhs != nil {
				v = rhs
			}
		}
		o = c01out{class: "value", text: clipS(v.SexpString(nil), 40)}
	}()
	return o
}

// names whose calls may legitimately wait for ever (another goroutine, a channel, the terminal)
var c01waits = []string{"<!", "send", "makeChan", "go", "readline", "stdin", "<-", "->", "chan"}

func c01mayWait(text string) bool {
	for _, w := range c01waits {
		if strings.Contains(text, w) {
			return true
		}
	}
	return false
}

// every group witness carries the tier it was enumerated under (replays run the same enumeration)
func c01tier(c *engine.Ctx) string {
	if c.Thorough() {
		return "@t"
	}
	return "@q"
}

type c01case struct {
	entry string
	text  string
}

// c01group runs the cases one after the other on one interpreter (a fresh one after a panic or a timeout) and
// reports every escape. upTo >= 0 (replay) stops after that case and reports only it.
func c01group(c *engine.Ctx, gw string, setup func(env *zygo.Zlisp), cases []c01case, upTo int) {
	c.Begin(gw)
	c01registryReset()
	env := c01env()
	if setup != nil {
		setup(env)
	}
	timeouts := 0
	for i, cs := range cases {
		if upTo >= 0 && i > upTo {
			break
		}
		c.SetSub(i)
		if i == 7 && c.Evals%5 == 0 {
			c.AddSample(cs.entry + ": " + cs.text)
		}
		o := c01drive(env, cs.entry, cs.text)
		c.Evals++
		c.Count("runs", 1)
		c.Count("class:"+o.class, 1)
		report := upTo < 0 || i == upTo
		w := gw + "#" + strconv.Itoa(i)
		switch o.class {
		case "panic":
			if report {
				c.Violation("panic", "C01/panic/"+c01sig(o.text), w, fmt.Sprintf("a Go panic escaped %s: %s\n  frames: %s\n  text: %q", cs.entry, clipS(o.text, 300), o.stack, clipS(cs.text, 400)))
			}
			env = c01env()
			if setup != nil {
				setup(env)
			}
		case "gonil":
			if report {
				c.Violation("no-value-no-error", "C01/gonil/"+cs.entry, w, fmt.Sprintf("%s returned neither a value nor an error\n  text: %q", cs.entry, clipS(cs.text, 400)))
			}
		case "timeout":
			// only texts that name a waiting primitive run with a timeout: counted, not judged
			c.Count("waiting_not_judged", 1)
			timeouts++
			env = c01env()
			if setup != nil {
				setup(env)
			}
			if timeouts > 4 {
				c.Count("groups_cut_short_by_timeouts", 1)
				return
			}
		}
		c.Outcome(cs.entry + "|" + o.class + "|" + o.text)
	}
	env.Close()
}

var c01alphabet = []string{"(", ")", "[", "]", "{", "}", "a", "1", "-1", `"s"`, "'c'", "a:", ":", ".", "a.b", ".a", "^", "~", "~@", "%", "&", "=", ":=", "+", "-", "*", "/", ",", ";",
	"fn", "def", "defn", "let", "cond", "for", "and", "quote", "defmac", "set", "begin", "hash", "list", "nil", "break", "return", "package", "struct", "->", "$", "#", "\\", "`", `"s`, "1e", "0x", "/*", "//", "@", "?", "!"}

var c01wrappers = []string{"%s", "(macexpand %s)", "(quote %s)", "^%s", "(eval (quote %s))", "{%s}", "(defn f [] %s) (f)", "(%s)", "[%s]", "(list 1 %s 2)"}

func c01tokenCases(prefix []string, alphabet []string) []c01case {
	var cases []c01case
	for _, last := range alphabet {
		toks := append(append([]string{}, prefix...), last)
		for _, sep := range []string{" ", ""} {
			if sep == "" && len(toks) == 1 {
				continue
			}
			t := strings.Join(toks, sep)
			for _, w := range c01wrappers {
				cases = append(cases, c01case{"eval", fmt.Sprintf(w, t) + "\n"})
			}
			cases = append(cases, c01case{"eval", t}) // no trailing newline
			cases = append(cases, c01case{"load-run", t + "\n"})
			cases = append(cases, c01case{"repl", t})
			cases = append(cases, c01case{"parse", t})
		}
	}
	return cases
}

func c01tokenGroups(c *engine.Ctx, maxLen int, only string, upTo int) {
	alpha := c01alphabet
	var rec func(prefix []string)
	rec = func(prefix []string) {
		if c.Expired() {
			return
		}
		gw := "T|" + strings.Join(prefix, "\x1f") + c01tier(c)
		al := alpha
		if len(prefix) >= 3 {
			al = alpha[:40]
		}
		if only == "" && c.Mine() || only == gw {
			c01group(c, gw, nil, c01tokenCases(prefix, al), upTo)
		}
		if len(prefix)+1 < maxLen {
			for _, t := range al {
				rec(append(append([]string{}, prefix...), t))
			}
		}
	}
	rec(nil)
}

// ---- ill-typed calls: every bound name and special form x argument vectors over a menu of value kinds

var c01values = []string{"nil", "0", "-1", "9223372036854775807", "2.5", `"s"`, "'c'", "(quote sym)", "(quote (1 2))", "[1 2]", "(hash a:1)", "[]", "(fn [x] x)", "st01", "true", "u", "[u]", "[u 1]", "(u)", "u:", "(quote ())", "%u", "(raw \"ab\")", "h01.a"}

const c01prelude = `(struct S01 [(field a: int64)]) (def st01 (S01 a:1)) (def h01 (hash a:1 b:[1 2]))
(defn lz01 [#x] 7) (defn lz02 [a #x] (force #x)) (defn va01 [a & r] r) (defn fx01 [a b] (+ a b)) (defmac mc01 [a] ^(list ~a)) (defmac mc02 [a & r] ^(list ~a ~@r))
(func tf01 [a:int64] [r:int64] (return a)) (def cl01 (let [z 1] (fn [q] (+ q z)))) (defn tl01 [n #x] (cond (== n 0) (force #x) (tl01 (- n 1) n)))`

// functions, macros and closures of every kind of signature, defined by the prelude and swept like the builtins
var c01userNames = []string{"lz01", "lz02", "va01", "fx01", "mc01", "mc02", "tf01", "cl01", "tl01", "S01", "st01", "h01"}

func c01callGroups(c *engine.Ctx, maxArgs int, only string, upTo int) {
	env := c01env()
	names := env.VerifGlobalNames()
	names = append(names, env.VerifMacroNames()...)
	env.Close()
	names = append(names, c08special...)
	names = append(names, c01userNames...)
	sort.Strings(names)
	var vectors [][]string
	var rec func(cur []string)
	rec = func(cur []string) {
		vectors = append(vectors, append([]string{}, cur...))
		if len(cur) == maxArgs {
			return
		}
		for _, m := range c01values {
			rec(append(cur, m))
		}
	}
	rec(nil)
	c.Note("call_names", strconv.Itoa(len(names)))
	seen := map[string]bool{}
	for _, n := range names {
		if seen[n] || n == "" || strings.ContainsAny(n, "()[]{}\"' `") {
			continue
		}
		seen[n] = true
		gw := "K|" + n + c01tier(c)
		if !(only == "" && c.Mine() || only == gw) {
			continue
		}
		if c.Expired() {
			return
		}
		var cases []c01case
		for _, v := range vectors {
			cases = append(cases, c01case{"eval", "(" + n + " " + strings.Join(v, " ") + ")\n"})
		}
		// the name used as a value, and called through apply / as a method-like dot call
		cases = append(cases, c01case{"eval", n + "\n"}, c01case{"eval", "(apply " + n + " [1 2])\n"}, c01case{"eval", "(str " + n + ")\n"}, c01case{"repl", n + " 1 2"}, c01case{"repl", "a = " + n + "(1)"})
		c01group(c, gw, func(e *zygo.Zlisp) { c01drive(e, "eval", c01prelude+"\n") }, cases, upTo)
	}
}

// c01headGroups puts every value kind in call-head position (computed callees, arrays and hashes as callees, ...).
func c01headGroups(c *engine.Ctx, maxArgs int, only string, upTo int) {
	heads := append([]string{}, c01values...)
	heads = append(heads, `["s"]`, "[2.5 1]", "[[1]]", "(list)", "((fn [] car))", "(quote car)", "car:", "h01", "st01.a", "S01", "(S01)", "[nil]", "{}", "-", "%car", "^car", "'a'")
	for _, h := range heads {
		gw := "H|" + h + c01tier(c)
		if !(only == "" && c.Mine() || only == gw) {
			continue
		}
		var cases []c01case
		var rec func(cur []string)
		rec = func(cur []string) {
			cases = append(cases, c01case{"eval", "(" + h + " " + strings.Join(cur, " ") + ")\n"})
			if len(cur) == maxArgs {
				return
			}
			for _, m := range c01values {
				rec(append(append([]string{}, cur...), m))
			}
		}
		rec(nil)
		c01group(c, gw, func(e *zygo.Zlisp) { c01drive(e, "eval", c01prelude+"\n") }, cases, upTo)
	}
}

// ---- the script corpus: every single-token deletion / duplication / swap / replacement of every top-level form

// c01lex splits source text into tokens (strings, raw strings, characters, comments, brackets, words).
func c01lex(s string) []string {
	var toks []string
	i := 0
	for i < len(s) {
		ch := s[i]
		switch {
		case ch == ' ' || ch == '\t' || ch == '\n' || ch == '\r':
			i++
		case ch == '"':
			j := i + 1
			for j < len(s) && s[j] != '"' {
				if s[j] == '\\' {
					j++
				}
				j++
			}
			if j >= len(s) {
				j = len(s) - 1
			}
			toks = append(toks, s[i:j+1])
			i = j + 1
		case ch == '`':
			j := i + 1
			for j < len(s) && s[j] != '`' {
				j++
			}
			if j >= len(s) {
				j = len(s) - 1
			}
			toks = append(toks, s[i:j+1])
			i = j + 1
		case ch == '/' && i+1 < len(s) && s[i+1] == '/':
			j := i
			for j < len(s) && s[j] != '\n' {
				j++
			}
			toks = append(toks, s[i:j]+"\n")
			i = j
		case ch == ';':
			j := i
			for j < len(s) && s[j] != '\n' {
				j++
			}
			toks = append(toks, s[i:j]+"\n")
			i = j
		case ch == '/' && i+1 < len(s) && s[i+1] == '*':
			j := strings.Index(s[i+2:], "*/")
			if j < 0 {
				toks = append(toks, s[i:])
				i = len(s)
			} else {
				toks = append(toks, s[i:i+2+j+2])
				i = i + 2 + j + 2
			}
		case strings.ContainsRune("()[]{}", rune(ch)):
			toks = append(toks, string(ch))
			i++
		default:
			j := i
			for j < len(s) && !strings.ContainsRune(" \t\n\r()[]{}\"`", rune(s[j])) {
				j++
			}
			toks = append(toks, s[i:j])
			i = j
		}
	}
	return toks
}

// c01forms groups tokens into top-level forms by bracket depth.
func c01forms(toks []string) [][]string {
	var forms [][]string
	var cur []string
	depth := 0
	for _, t := range toks {
		cur = append(cur, t)
		switch t {
		case "(", "[", "{":
			depth++
		case ")", "]", "}":
			depth--
		}
		if depth <= 0 {
			depth = 0
			forms = append(forms, cur)
			cur = nil
		}
	}
	if len(cur) > 0 {
		forms = append(forms, cur)
	}
	return forms
}

var c01replacements = []string{"(", ")", "[", "}", "nil", "-1", `"s"`, "a:", "~@", "%", "'", "{", "]", "fn", "^", "9223372036854775807", ".", ":="}

func c01mutations(form []string, thorough bool) []string {
	var out []string
	join := func(t []string) string { return strings.Join(t, " ") + "\n" }
	out = append(out, join(form))
	reps := c01replacements[:8]
	if thorough {
		reps = c01replacements
	}
	// every prefix (the text ends early)
	for j := 1; j < len(form); j++ {
		out = append(out, join(form[:j]))
	}
	for j := range form {
		del := append(append([]string{}, form[:j]...), form[j+1:]...)
		out = append(out, join(del))
		dup := append(append(append([]string{}, form[:j+1]...), form[j]), form[j+1:]...)
		out = append(out, join(dup))
		if j+1 < len(form) {
			sw := append([]string{}, form...)
			sw[j], sw[j+1] = sw[j+1], sw[j]
			out = append(out, join(sw))
		}
		for _, r := range reps {
			if r == form[j] {
				continue
			}
			rp := append([]string{}, form...)
			rp[j] = r
			out = append(out, join(rp))
		}
	}
	return out
}

func c01corpusGroups(c *engine.Ctx, only string, upTo int) {
	files, _ := filepath.Glob("/repo/tests/*.zy")
	sort.Strings(files)
	for _, f := range files {
		b, err := os.ReadFile(f)
		if err != nil {
			continue
		}
		forms := c01forms(c01lex(string(b)))
		base := filepath.Base(f)
		for fi, form := range forms {
			if c.Expired() {
				return
			}
			if len(form) == 1 && (strings.HasPrefix(form[0], "//") || strings.HasPrefix(form[0], ";") || strings.HasPrefix(form[0], "/*")) {
				continue
			}
			gw := fmt.Sprintf("F|%s|%d", base, fi) + c01tier(c)
			if !(only == "" && c.Mine() || only == gw) {
				continue
			}
			if len(form) > 400 && !c.Thorough() {
				c.Count("corpus_forms_over_400_tokens_left_to_thorough", 1)
				continue
			}
			var cases []c01case
			for _, m := range c01mutations(form, c.Thorough()) {
				cases = append(cases, c01case{"eval", m})
			}
			c.Count("corpus_forms", 1)
			c.Count("corpus_mutants", int64(len(cases)))
			prefix := forms[:fi]
			c01group(c, gw, func(e *zygo.Zlisp) {
				for _, pf := range prefix {
					c01drive(e, "eval", strings.Join(pf, " ")+"\n")
				}
			}, cases, upTo)
		}
	}
}

// ---- nesting families

func c01nestGroups(c *engine.Ctx, only string, upTo int) {
	type fam struct{ open, core, close string }
	fams := []fam{{"(", "", ")"}, {"[", "", "]"}, {"{", "", "}"}, {"(a ", "1", ")"}, {"[1 ", "2", "]"}, {"{a = ", "1", "}"}, {"^", "a", ""}, {"~", "a", ""}, {"%", "a", ""}, {"(quote ", "a", ")"},
		{"(fn [] ", "1", ")"}, {"(begin ", "1", ")"}, {"(let [x ", "1", "] x)"}, {"(cond true ", "1", " 0)"}, {"(and ", "1", ")"}, {"^(", "a", ")"}, {"(list ", "1", ")"}, {"(hash a: ", "1", ")"}, {"a.", "b", ""}, {"-", "1", ""}, {"(not ", "true", ")"},
		{"((fn [x] ", "1", ") 1)"}, {"(+ 1 ", "1", ")"}, {"{1 + ", "1", "}"}, {"{(", "1", ")}"}, {"\"", "", "\""}, {"/*", "", "*/"}, {"'", "", ""}, {"&", "a", ""}, {"$", "a", ""}, {":", "a", ""}}
	depths := []int{1, 2, 3, 5, 10, 50, 200, 600}
	if c.Thorough() {
		depths = append(depths, 1500)
	}
	for fi, f := range fams {
		gw := fmt.Sprintf("N|%d", fi) + c01tier(c)
		if !(only == "" && c.Mine() || only == gw) {
			continue
		}
		var cases []c01case
		for _, d := range depths {
			full := strings.Repeat(f.open, d) + f.core + strings.Repeat(f.close, d)
			for _, t := range []string{full, strings.Repeat(f.open, d) + f.core, strings.Repeat(f.open, d), f.core + strings.Repeat(f.close, d), "(def nest01 (quote " + full + "))", "(str (quote " + full + "))"} {
				if t == "" {
					continue
				}
				cases = append(cases, c01case{"eval", t + "\n"}, c01case{"repl", t}, c01case{"parse", t}, c01case{"compile", t + "\n"})
			}
		}
		c01group(c, gw, nil, cases, upTo)
	}
}

// ---- declarations in one interpreter, construction of the next one

var c01declRoutes = []string{"(struct %s [])", "(struct %s [(field a: int64)])", "(defmap %s)", "(msgmap (quote %s) [])", "(interface %s [])", "(def r01 (%s a:1))", "(func %s [] 1)", "(var %s int64)", "(package %s {})"}

func c01registryGroups(c *engine.Ctx, only string) {
	env := c01env()
	names := env.VerifGlobalNames()
	names = append(names, env.VerifMacroNames()...)
	env.Close()
	names = append(names, zygo.ReservedWords...)
	names = append(names, "zz01", "Zz01")
	sort.Strings(names)
	seen := map[string]bool{}
	for _, n := range names {
		if seen[n] || n == "" || strings.ContainsAny(n, "()[]{}\"' `") {
			continue
		}
		seen[n] = true
		for ri, route := range c01declRoutes {
			w := fmt.Sprintf("R|%s|%d", n, ri)
			if !(only == "" && c.Mine() || only == w) {
				continue
			}
			c.Begin(w)
			c01registryReset()
			e1 := c01env()
			o := c01drive(e1, "eval", fmt.Sprintf(route, n)+"\n")
			c.Count("registry_runs", 1)
			c.Evals++
			if o.class == "panic" {
				c.Violation("panic", "C01/panic/"+c01sig(o.text), w, "a Go panic escaped eval: "+clipS(o.text, 300)+"\n  text: "+fmt.Sprintf(route, n))
			}
			func() {
				defer func() {
					if x := recover(); x != nil {
						c.Violation("next-interpreter", "C01/next-interpreter/"+strconv.Itoa(ri), w, fmt.Sprintf("after %s in one interpreter, constructing the next interpreter of the process (NewZlisp + StandardSetup) panics: %s", fmt.Sprintf(route, n), clipS(fmt.Sprint(x), 300)))
					}
				}()
				e2 := c01env()
				for _, probe := range []string{"(+ 1 2)", "(def a 1) (++ a) a", "(defmap rr01) (rr01 a:1)", "(range k v (hash a:1) k)", "(" + n + ")", n} {
					o2 := c01drive(e2, "eval", probe+"\n")
					if o2.class == "panic" {
						c.Violation("panic", "C01/panic-next/"+c01sig(o2.text), w, fmt.Sprintf("after %s in one interpreter, %s panics in the next: %s", fmt.Sprintf(route, n), probe, clipS(o2.text, 300)))
					}
					c.Outcome(fmt.Sprintf("R|%d|%s|%s", ri, o2.class, o2.text))
				}
				e2.Close()
			}()
			e1.Close()
		}
	}
	c01registryReset()
}

// ---- the command-line tool

var c01crashRe = regexp.MustCompile(`(?m)^(panic: |fatal error: )`)

var c01cliHand = []string{`((fn [a b] a) 7 (map (fn [x] (return)) [1 2]))`, `(defmac m [] (list (str2sym "msgpack-map") 5)) (m)`, `(defmac m2 [] (list (str2sym "msgpack-map") (quote a) 1)) (m2)`, `(list 1 ^~@(list 2 3))`, "", "(", ")", "(+ 1", "(+ 1 \"s\")", "(defn f [] (f)) 1", "{", "}", "{a = }", "(and)", "(let)", "(cond)", "(for)", "(fn)", "(defmac)", "(def)", "(quote)", "(macexpand)", "(hash a:)", "[1 2].x", "a.b.c", "'", "\"", "`", "^", "~", "~@", "%", "(1 2 3)", "(nil)", "((fn [] 1) 2)",
	"(aget [1 2] 9)", "(hget (hash) a:)", "(first [])", "(/ 1 0)", "(mod 1 0)", "(str2sym \"\")", "(slice [1] 5 2)", "(break)", "(continue)", "(return)", "(package)", "(struct)", "(_ls)", "(assert false)", "(include)", "(set)", "(mdef)", "(newScope)", "(letseq)", "(begin)", "(or)", "(syntaxQuote)", "(defn)", "1 2 3", "a = ", "= 1", "x := ", "(:)", "(: a)", "(comma)", "(raw64)"}

func c01cli(c *engine.Ctx, only string) {
	bin := filepath.Join(os.TempDir(), fmt.Sprintf("c01zygo-%d", os.Getpid()))
	cmd := exec.Command("go", "build", "-o", bin, "./cmd/zygo")
	cmd.Dir = "/repo"
	cmd.Env = append(os.Environ(), "GOFLAGS=-mod=mod", "GOPROXY=off")
	if out, err := cmd.CombinedOutput(); err != nil {
		c.Note("cli", "could not build cmd/zygo: "+clipS(string(out), 200))
		return
	}
	defer os.Remove(bin)
	texts := append([]string{}, c01cliHand...)
	for _, a := range c01alphabet {
		texts = append(texts, a)
		if c.Thorough() {
			for _, b := range c01alphabet {
				texts = append(texts, a+" "+b)
			}
		}
	}
	dir, _ := os.MkdirTemp("", "c01cli")
	defer os.RemoveAll(dir)
	for ti, t := range texts {
		for _, mode := range []string{"-c", "stdin", "script"} {
			w := fmt.Sprintf("CLI|%s|%s", mode, t) + c01tier(c)
			if !(only == "" && c.Mine() || only == w) {
				continue
			}
			if mode == "-c" && t == "" {
				continue // an empty -c means "no command": the tool starts the REPL
			}
			c.Begin(w)
			var cm *exec.Cmd
			switch mode {
			case "-c":
				cm = exec.Command(bin, "-sandbox", "-quiet", "-c", t)
				cm.Stdin = strings.NewReader("")
			case "stdin":
				cm = exec.Command(bin, "-sandbox", "-quiet", "-no-liner") // the line editor needs a terminal
				cm.Stdin = strings.NewReader(t + "\n")
			case "script":
				fn := filepath.Join(dir, fmt.Sprintf("s%d-%d.zy", c.Worker, ti))
				os.WriteFile(fn, []byte(t+"\n"), 0o644)
				cm = exec.Command(bin, "-sandbox", "-quiet", "-exitonfail", fn)
				cm.Stdin = strings.NewReader("")
			}
			cm.Dir = dir
			var buf bytes.Buffer
			cm.Stdout, cm.Stderr = &buf, &buf
			doneCh := make(chan error, 1)
			if err := cm.Start(); err != nil {
				c.Note("cli-start", err.Error())
				continue
			}
			go func() { doneCh <- cm.Wait() }()
			timedOut := false
			select {
			case <-doneCh:
			case <-time.After(30 * time.Second):
				cm.Process.Kill()
				<-doneCh
				timedOut = true
			}
			c.Count("cli_runs", 1)
			c.Evals++
			out := buf.String()
			if timedOut {
				c.Violation("cli-no-return", "C01/cli-no-return/"+mode, w, fmt.Sprintf("zygo %s did not finish within 30 s\n  text: %q", mode, t))
			}
			code := -1
			if cm.ProcessState != nil {
				code = cm.ProcessState.ExitCode()
			}
			// an uncaught Go panic ends the process with status 2 and a "panic: ..." (or "fatal error: ...") line followed by
			// "goroutine N [running]:"; error messages of caught panics quote a stack too, but the process goes on to exit 0/1/255
			if loc := c01crashRe.FindStringIndex(out); !timedOut && loc != nil && code == 2 {
				c.Violation("cli-crash", "C01/cli-crash/"+c01sig(out[loc[0]:]), w, fmt.Sprintf("zygo %s crashed (exit status 2): %s\n  text: %q", mode, clipS(out[loc[0]:], 400), t))
			}
			c.Outcome(fmt.Sprintf("cli|%s|%d|%s", mode, code, clipS(out, 30)))
		}
	}
}

// ---- small function bodies: a statement followed by a self-call, then ordinary evaluations on the same interpreter
// (scope bookkeeping that goes wrong inside a call often shows only in the *next* evaluation)
func c01bodyGroups(c *engine.Ctx, only string, upTo int) {
	firsts := []string{
		`(for [(def i 0) (< i 2) (set i (+ i 1))] (set acc (+ acc i)))`, `(for [(def i 0) (< i 2) (set i (+ i 1))] (cond (== i 1) (break) nil))`,
		`(for [(def i 0) (< i 2) (set i (+ i 1))] (let [q i] (cond (== q 0) (continue) nil)))`, `(for outer: [(def i 0) (< i 2) (set i (+ i 1))] (for [(def j 0) (< j 2) (set j (+ j 1))] (cond (== j 1) (continue outer:) nil)))`,
		`(let [q 1] (set acc (+ acc q)))`, `(newScope (def q 2) (set acc (+ acc q)))`, `(letseq [q 1 r q] (set acc r))`, `(cond (== n 1) (set acc 5) nil)`, `(begin (def loc n) loc)`,
		`(def p01 (package "pp" { (def A n) }))`, `(range k v (hash a: 1 b: 2) (set acc (+ acc v)))`, `{acc = acc + 1}`, `(mdef m1 m2 (list 1 2))`, `(and 1 (or false 2))`, `[n (+ n 1)]`, `(assert (== 1 1))`,
	}
	seconds := []string{
		`(cond (== n 0) acc (f (- n 1)))`, `(let [q n] (cond (== q 0) acc (f (- q 1))))`, `(newScope (cond (== n 0) acc (f (- n 1))))`, `(cond (== n 0) acc (begin (def z n) (f (- n 1))))`,
		`(and true (cond (== n 0) acc (f (- n 1))))`, `(cond (== n 0) acc (+ 0 (f (- n 1))))`, `(for [(def k 0) (< k 1) (set k (+ k 1))] (cond (== n 0) (break) (f (- n 1))))`, `(cond (== n 0) acc (letseq [a n b a] (f (- b 1))))`,
	}
	callers := []string{`(f 2)`, `(begin (defn g01 [] (f 2)) (g01))`, `((fn [] (list (f 1) (f 2))))`, `(let [w 1] (f 2))`, `(for [(def u 0) (< u 2) (set u (+ u 1))] (f 1))`}
	for fi, b1 := range firsts {
		gw := fmt.Sprintf("P|%d", fi) + c01tier(c)
		if !(only == "" && c.Mine() || only == gw) {
			continue
		}
		var cases []c01case
		for _, b2 := range seconds {
			for _, call := range callers {
				cases = append(cases, c01case{"eval", "(def acc 0) (defn f [n] " + b1 + " " + b2 + ")\n"}, c01case{"eval", call + "\n"},
					c01case{"eval", "(def zz01 1)\n"}, c01case{"eval", "(+ zz01 acc)\n"}, c01case{"eval", "(defn h01 [x] (let [y x] (+ y zz01)))\n"}, c01case{"eval", "(h01 2)\n"}, c01case{"repl", "zz01 + 1"})
			}
		}
		c01group(c, gw, nil, cases, upTo)
	}
}

// ---- struct declarations whose field attributes hold multi-byte text: the aligned printer of declarations is reached
// from VM instructions (re-binding a name that holds an instance), not only from builtins
func c01structText(c *engine.Ctx, only string, upTo int) {
	texts := []string{"a", "é", "名前", "😀", "名前名前", "ab名", "éé😀é", "x\ty", ""}
	gi := 0
	for _, t1 := range texts {
		gw := fmt.Sprintf("S|%d", gi) + c01tier(c)
		gi++
		if !(only == "" && c.Mine() || only == gw) {
			continue
		}
		var cases []c01case
		for _, t2 := range texts {
			for vi, decl := range []string{
				`(struct Tg%d [(field name:string e:0 gotags:"json:\"` + t1 + `\"") (field other:int64 e:1 gotags:"json:\"` + t2 + `\"")])`,
				`(struct Tg%d [(field ` + "n" + `:string e:0 gotags:"` + t1 + `") (field m:string e:1 gotags:"` + t2 + t2 + `")])`,
			} {
				name := fmt.Sprintf("Tg%d", vi)
				d := strings.Replace(decl, "Tg%d", name, 1)
				first := "name"
				if vi == 1 {
					first = "n"
				}
				cases = append(cases, c01case{"eval", d + "\n"}, c01case{"eval", "(def tg (" + name + " " + first + ":\"a\"))\n"}, c01case{"eval", "(def tg (" + name + " " + first + ":\"b\"))\n"},
					c01case{"eval", "(str " + name + ")\n"}, c01case{"repl", name}, c01case{"repl", "tg"}, c01case{"eval", "(set tg (" + name + " " + first + ":\"c\"))\n"}, c01case{"eval", "(def v2 [tg tg]) (def v2 [tg])\n"})
			}
		}
		c01group(c, gw, nil, cases, upTo)
	}
}

// ---- self-referential data: every bound function on an array that contains itself and a hash that contains itself.
// A runaway recursion over such a value ends in a Go stack overflow, which cannot be recovered and kills the host:
// each case therefore runs in its own process (the command-line tool with -c).
func c01cyclic(c *engine.Ctx, only string) {
	env := c01env()
	names := env.VerifGlobalNames()
	env.Close()
	names = append(names, c08special...)
	sort.Strings(names)
	withheld := map[string]bool{}
	for _, n := range c01withheld {
		withheld[n] = true
	}
	bin := filepath.Join(os.TempDir(), fmt.Sprintf("c01zygo-cyc-%d", os.Getpid()))
	built := false
	defer func() {
		if built {
			os.Remove(bin)
		}
	}()
	const setup = `(def cy [0]) (aset cy 0 cy) (def hc (hash a: 1)) (hset hc a: hc) (def ly (list 1 cy)) (def ca [0]) (aset ca 0 (list (quote and) ca)) (def cs [1 2 3]) (aset cs 1 (arrayidx cs [1])) (def hs (hash k: 1)) (hset hs k: (hashidx hs k:)) (def ta [1 2 3]) (def ta (append ta 4)) (aset ta 1 ta) (def tb (slice [1 2 3] 0 2)) (aset tb 0 tb) (def tc (concat [1] [2])) (aset tc 1 (list tc)) `
	seen := map[string]bool{}
	for _, n := range names {
		if seen[n] || n == "" || withheld[n] || c01mayWait(n) || n == "sys" || n == "stop" || strings.ContainsAny(n, "()[]{}\"' `") {
			continue
		}
		seen[n] = true
		for fi, form := range []string{"(%s cy)", "(%s cy cy)", "(%s hc)", "(%s hc hc)", "(%s cy 0)", "(%s 0 cy)", "(%s hc a:)", "(%s ly)", "(def zz (%s cy))", "(str (%s hc))", "(%s ca)", "(%s cs)", "(%s hs)", "(%s ca ca)", "(%s ta)", "(%s tb tc)"} {
			w := fmt.Sprintf("Y|%s|%d", n, fi)
			if !(only == "" && c.Mine() || only == w) {
				continue
			}
			if !built {
				cmd := exec.Command("go", "build", "-o", bin, "./cmd/zygo")
				cmd.Dir = "/repo"
				cmd.Env = append(os.Environ(), "GOFLAGS=-mod=mod", "GOPROXY=off")
				if out, err := cmd.CombinedOutput(); err != nil {
					c.Note("cyclic-cli", "could not build cmd/zygo: "+clipS(string(out), 200))
					return
				}
				built = true
			}
			c.Begin(w)
			text := setup + fmt.Sprintf(form, n)
			cm := exec.Command(bin, "-quiet", "-c", text)
			cm.Stdin = strings.NewReader("")
			cm.Dir = os.TempDir()
			var buf bytes.Buffer
			cm.Stdout, cm.Stderr = &buf, &buf
			done := make(chan error, 1)
			if err := cm.Start(); err != nil {
				c.Note("cyclic-cli", err.Error())
				return
			}
			go func() { done <- cm.Wait() }()
			timedOut := false
			deadline := time.After(120 * time.Second)
			tick := time.NewTicker(10 * time.Second)
		wait:
			for {
				select {
				case <-done:
					break wait
				case <-tick.C:
					c.Beat() // the child is what is slow, not this worker
				case <-deadline:
					cm.Process.Kill()
					<-done
					timedOut = true
					break wait
				}
			}
			tick.Stop()
			c.Count("cyclic_runs", 1)
			c.Evals++
			out := buf.String()
			if len(out) > 1<<16 {
				out = out[:1<<16]
			}
			code := -1
			if cm.ProcessState != nil {
				code = cm.ProcessState.ExitCode()
			}
			if timedOut {
				c.Count("cyclic_slow_not_judged", 1)
			} else if loc := c01crashRe.FindStringIndex(out); loc != nil && code == 2 {
				c.Violation("host-killed", "C01/host-killed/"+c01sig(out[loc[0]:])+"/"+n, w, fmt.Sprintf("the process died (exit status 2): %s\n  text: %s", clipS(out[loc[0]:], 200), text))
			}
			c.Outcome(fmt.Sprintf("Y|%s|%d|%d", n, fi, code))
		}
	}
}

func c01all(c *engine.Ctx, only string, upTo int) {
	maxLen, maxArgs := 3, 2
	if c.Thorough() {
		maxLen, maxArgs = 4, 3
	}
	kind := ""
	if only != "" {
		kind = only[:1]
	}
	if kind == "" || kind == "K" {
		c01callGroups(c, maxArgs, only, upTo)
	}
	if kind == "" || kind == "S" {
		c01structText(c, only, upTo)
	}
	if kind == "" || kind == "P" {
		c01bodyGroups(c, only, upTo)
	}
	if kind == "" || kind == "Y" {
		c01cyclic(c, only)
	}
	if kind == "" || kind == "H" {
		c01headGroups(c, maxArgs, only, upTo)
	}
	if kind == "" || kind == "R" {
		c01registryGroups(c, only)
	}
	if kind == "" || kind == "N" {
		c01nestGroups(c, only, upTo)
	}
	if kind == "" || kind == "C" {
		c01cli(c, only)
	}
	if kind == "" || kind == "F" {
		c01corpusGroups(c, only, upTo)
	}
	if kind == "" || kind == "T" {
		c01tokenGroups(c, maxLen, only, upTo)
	}
}

func init() {
	engine.Register(&engine.Check{
		ID:    "C01",
		Level: "exploration",
		Rule: "(T) every string of <=3 (thorough 4) tokens over a 60-token alphabet, joined with and without blanks, x 10 wrappers (bare, macexpand, quote, syntax-quote, eval, infix block, function body, call head, array, call argument) through EvalString, LoadString+Run, the REPL line path (parse, continuation, infix wrap, EvalExpressions, stack-trace/print) and the parser alone; " +
			"(K) every bound name, macro and special form, and 12 user-defined functions/macros/closures/struct values (lazy, variadic, typed, tail-recursive signatures) x every argument vector of length 0..2 (thorough 3) over 24 value/form kinds, and 41 kinds of value in call-head position with the same vectors; (F) every top-level form of the 111 corpus scripts, after the forms before it, under every prefix, single-token deletion, duplication, neighbour swap and replacement by 8 (thorough 18) tokens; " +
			"(N) 31 nesting families at depths 1..600 (thorough 1500; some parsers are quadratic in the nesting depth), closed, unclosed and over-closed, through eval, REPL, parser, compiler and printer; (P) 16 statements x 8 self-calling tails x 5 callers as function bodies, each followed by ordinary evaluations on the same interpreter; (S) struct declarations with 9 x 9 ASCII / 2-, 3-, 4-byte texts in field attributes, instances re-bound and printed; (Y) every bound function x 16 call shapes on arrays (literal, and made by append / slice / concat), hashes and selectors that contain themselves (directly, through a quoted special form, through an index selector), each in its own process; (C) hand list + alphabet through zygo -c, REPL on stdin and script file. Oracle: the call returns a value or an error (no escaping panic, no process death, no Go-nil result), and returns: a call still running after 90 s although the 100000-step VM budget is not used up ends the worker (watchdog) and is confirmed by three solitary replays",
		Assumptions:   []string{"texts that name channel / goroutine primitives may wait for ever and are counted, not judged, when they do", "functions acting on the outside world (" + strings.Join(c01withheld, ", ") + ", sys) are replaced by failing stubs", "allocation sizes between 2^31 and 2^62 are not in the value menu (out-of-memory is not explored)"},
		QuickDeadline: 170 * time.Second,
		Run:           func(c *engine.Ctx) { c01all(c, "", -1) },
		Replay: func(c *engine.Ctx, w string) {
			c.NWorkers = 1
			gw, upTo := w, -1
			if i := strings.LastIndex(w, "#"); i >= 0 && !strings.HasPrefix(w, "CLI|") && !strings.HasPrefix(w, "Y|") {
				gw = w[:i]
				upTo, _ = strconv.Atoi(w[i+1:])
			}
			if strings.HasSuffix(gw, "@t") {
				c.Tier = "thorough"
			}
			c01all(c, gw, upTo)
		},
	})
}
