package props

import (
	"bytes"
	"encoding/json"
	"fmt"
	"math"
	"math/big"
	"strconv"
	"strings"

	"github.com/glycerine/zygomys/v9/zygo"

	"verif/internal/engine"
	"verif/internal/zy"
)

// C11 — JSON and msgpack encodings round-trip and are well-formed.

// value specs: a tiny term language so that witnesses are replayable
//
//	i<n> f<bits> s<quoted> b0 b1 n   A(..)  H<type>(k=v,..)  S(k=v,..) [string keys]
type c11val struct {
	spec string
	mk   func(env *zygo.Zlisp) zygo.Sexp
}

func c11int(i int64) c11val {
	return c11val{fmt.Sprintf("i%d", i), func(*zygo.Zlisp) zygo.Sexp { return &zygo.SexpInt{Val: i} }}
}
func c11float(f float64) c11val {
	return c11val{fmt.Sprintf("f%x", math.Float64bits(f)), func(*zygo.Zlisp) zygo.Sexp { return &zygo.SexpFloat{Val: f} }}
}
func c11str(s string) c11val {
	return c11val{"s" + strconv.Quote(s), func(*zygo.Zlisp) zygo.Sexp { return &zygo.SexpStr{S: s} }}
}
func c11bool(b bool) c11val {
	return c11val{map[bool]string{true: "b1", false: "b0"}[b], func(*zygo.Zlisp) zygo.Sexp { return &zygo.SexpBool{Val: b} }}
}
func c11nil() c11val { return c11val{"n", func(*zygo.Zlisp) zygo.Sexp { return zygo.SexpNull }} }
func c11arr(xs ...c11val) c11val {
	var sp []string
	for _, x := range xs {
		sp = append(sp, x.spec)
	}
	return c11val{"A(" + strings.Join(sp, " ") + ")", func(env *zygo.Zlisp) zygo.Sexp {
		var vs []zygo.Sexp
		for _, x := range xs {
			vs = append(vs, x.mk(env))
		}
		return env.NewSexpArray(vs)
	}}
}
func c11hash(typ string, strKeys bool, keys []string, vals []c11val) c11val {
	var sp []string
	for i, k := range keys {
		sp = append(sp, strconv.Quote(k)+"="+vals[i].spec)
	}
	tag := "H"
	if strKeys {
		tag = "S"
	}
	return c11val{tag + typ + "(" + strings.Join(sp, " ") + ")", func(env *zygo.Zlisp) zygo.Sexp {
		var kv []zygo.Sexp
		for i, k := range keys {
			if strKeys {
				kv = append(kv, &zygo.SexpStr{S: k})
			} else {
				kv = append(kv, env.MakeSymbol(k))
			}
			kv = append(kv, vals[i].mk(env))
		}
		h, err := zygo.MakeHash(kv, typ, env)
		if err != nil {
			panic(err)
		}
		return h
	}}
}

func c11scalars(thorough bool) []c11val {
	var vs []c11val
	vs = append(vs, c11nil(), c11bool(true), c11bool(false))
	for _, i := range c12ints() {
		vs = append(vs, c11int(i))
	}
	for _, f := range c12floats(false) {
		if math.IsInf(f, 0) || math.IsNaN(f) {
			continue
		}
		vs = append(vs, c11float(f))
	}
	return vs
}

func c11strings(thorough bool) []c11val {
	var vs []c11val
	for _, r := range c12runes(thorough) {
		vs = append(vs, c11str(string(r)))
	}
	for _, a := range c12strPool {
		for _, b := range c12strPool {
			vs = append(vs, c11str(a+b))
		}
	}
	// texts that look like escapes (a backslash followed by the letters of an escape) must survive literally
	for _, t := range []string{`\u003c`, `a\u003eb`, `\u0026`, `\\u003c`, `\n`, `\t`, `\x41`, `\"`, `\/`, `<>&`, `</script>`, "\u2028\u2029"} {
		vs = append(vs, c11str(t))
	}
	vs = append(vs, c11str(""), c11str("plain ascii text"), c11str("Atype"), c11str("zKeyOrder"), c11str("nil"), c11str("true"), c11str("12"))
	return vs
}

// jsonSame compares the data denoted by JSON text (decoded by encoding/json) with the value.
func jsonSame(dec interface{}, v zygo.Sexp) (bool, string) {
	switch x := v.(type) {
	case *zygo.SexpSentinel:
		return dec == nil, "null"
	case *zygo.SexpBool:
		b, ok := dec.(bool)
		return ok && b == x.Val, "bool"
	case *zygo.SexpInt:
		n, ok := dec.(json.Number)
		if !ok {
			return false, "number"
		}
		bf, _, err := big.ParseFloat(string(n), 10, 200, big.ToNearestEven)
		return err == nil && bf.Cmp(new(big.Float).SetPrec(200).SetInt64(x.Val)) == 0, "int"
	case *zygo.SexpFloat:
		n, ok := dec.(json.Number)
		if !ok {
			return false, "number"
		}
		f, err := strconv.ParseFloat(string(n), 64)
		return err == nil && f == x.Val, "float"
	case *zygo.SexpStr:
		s, ok := dec.(string)
		return ok && s == x.S, "string"
	case *zygo.SexpArray:
		a, ok := dec.([]interface{})
		if !ok || len(a) != len(x.Val) {
			return false, "array"
		}
		for i := range a {
			if ok, why := jsonSame(a[i], x.Val[i]); !ok {
				return false, fmt.Sprintf("[%d]:%s", i, why)
			}
		}
		return true, ""
	case *zygo.SexpHash:
		m, ok := dec.(map[string]interface{})
		if !ok {
			return false, "object"
		}
		n := 0
		for _, k := range x.KeyOrder {
			name := ""
			switch kk := k.(type) {
			case *zygo.SexpSymbol:
				name = kk.Name()
			case *zygo.SexpStr:
				name = kk.S
			default:
				return false, "key kind"
			}
			val, _ := x.HashGet(nil, k)
			d, present := m[name]
			if !present {
				return false, "missing key " + name
			}
			if ok, why := jsonSame(d, val); !ok {
				return false, name + ":" + why
			}
			n++
		}
		// besides the fields only the two bookkeeping members may appear
		for k := range m {
			if k == "Atype" || k == "zKeyOrder" {
				continue
			}
			found := false
			for _, kk := range x.KeyOrder {
				switch t := kk.(type) {
				case *zygo.SexpSymbol:
					found = found || t.Name() == k
				case *zygo.SexpStr:
					found = found || t.S == k
				}
			}
			if !found {
				return false, "extra key " + k
			}
		}
		return true, ""
	}
	return false, fmt.Sprintf("unsupported %T", v)
}

// equalRecords: equalData plus record type names and key order at every level
func equalRecords(a, b zygo.Sexp) bool {
	if !equalData(a, b) {
		return false
	}
	switch x := a.(type) {
	case *zygo.SexpHash:
		y := b.(*zygo.SexpHash)
		if x.TypeName != y.TypeName {
			return false
		}
		for i, k := range x.KeyOrder {
			va, _ := x.HashGet(nil, k)
			vb, _ := y.HashGet(nil, y.KeyOrder[i])
			if !equalRecords(va, vb) {
				return false
			}
		}
	case *zygo.SexpArray:
		y := b.(*zygo.SexpArray)
		for i := range x.Val {
			if !equalRecords(x.Val[i], y.Val[i]) {
				return false
			}
		}
	}
	return true
}

func c11case(c *engine.Ctx, env *zygo.Zlisp, v c11val, class string) {
	w := v.spec
	c.Begin(w)
	viol := func(clause, detail string) { c.Violation(clause, "C11/"+clause+"/"+class, w, detail) }
	val := v.mk(env)
	env.AddGlobal("vv", val)
	j := zy.Eval(env, `(json vv)`)
	if j.Panic != "" {
		viol("panic", j.Panic)
		return
	}
	stringKeyed := strings.Contains(v.spec, "S")
	if !j.OK() {
		viol("json-fails", fmt.Sprintf("(json v) fails: %s", j))
	} else {
		raw, ok := j.Sexp.(*zygo.SexpRaw)
		if !ok {
			viol("json-fails", "json did not return raw bytes")
		} else {
			dec := json.NewDecoder(bytes.NewReader(raw.Val))
			dec.UseNumber()
			var out interface{}
			if err := dec.Decode(&out); err != nil || dec.More() {
				viol("json-malformed", fmt.Sprintf("(json v) = %s is not well-formed JSON: %v", clipS(string(raw.Val), 200), err))
			} else if same, why := jsonSame(out, val); !same {
				viol("json-denotes-other-data", fmt.Sprintf("(json v) = %s does not denote the value (%s)", clipS(string(raw.Val), 200), why))
			}
		}
	}
	if strings.HasPrefix(class, "stringkeys") || (stringKeyed && strings.HasPrefix(v.spec, "S")) {
		c.Outcome(class + "|" + j.Short())
		return // string-keyed hashes: only the JSON text is specified
	}
	for _, codec := range []string{"json", "msgpack"} {
		r := zy.Eval(env, "(un"+codec+" ("+codec+" vv))")
		if r.Panic != "" {
			viol("panic", r.Panic)
			continue
		}
		if !r.OK() {
			viol(codec+"-roundtrip-fails", fmt.Sprintf("(un%s (%s v)) fails: %s", codec, codec, r))
			continue
		}
		if !equalRecords(val, r.Sexp) {
			got := ""
			func() {
				defer func() { recover() }()
				got = r.Sexp.SexpString(nil)
			}()
			viol(codec+"-roundtrip-differs", fmt.Sprintf("v = %s, (un%s (%s v)) = %s", clipS(val.SexpString(nil), 150), codec, codec, clipS(got, 150)))
		}
	}
	c.Outcome(class + "|" + j.Short())
}

// c11interleaved: encode a, encode b, and only then decode the bytes obtained for a (encodings must not share storage)
func c11interleaved(c *engine.Ctx, env *zygo.Zlisp, only string) {
	vals := []c11val{c11int(-1), c11int(math.MaxInt64), c11float(2.5), c11str("a\"b"), c11str("é\n"), c11str(""), c11bool(true), c11nil(),
		c11arr(c11int(1), c11str("x")), c11arr(),
		c11hash("hash", false, []string{"a", "b"}, []c11val{c11int(1), c11str("one")}),
		c11hash("ranch", false, []string{"a", "b"}, []c11val{c11int(2), c11str("two")}),
		c11hash("ranch", false, []string{"b", "a", "c"}, []c11val{c11str("three"), c11int(3), c11arr(c11int(3))}),
		c11hash("hash", false, nil, nil)}
	for _, codec := range []string{"msgpack", "json"} {
		for _, a := range vals {
			for _, b := range vals {
				w := "Q|" + codec + "|" + a.spec + "|" + b.spec
				if !(only == "" && c.Mine() || only == w) {
					continue
				}
				c.Begin(w)
				va, vb := a.mk(env), b.mk(env)
				env.AddGlobal("qa", va)
				env.AddGlobal("qb", vb)
				r := zy.Eval(env, "(let [ea ("+codec+" qa) eb ("+codec+" qb) ec ("+codec+" qb)] (list (un"+codec+" ea) (un"+codec+" eb) (un"+codec+" ea)))")
				if r.Panic != "" {
					c.Violation("panic", "C11/panic/interleaved", w, r.Panic)
					continue
				}
				if !r.OK() {
					// a value that does not round-trip on its own is reported by the single-value cases
					c.Count("interleaved_not_decodable", 1)
					continue
				}
				l, _ := zygo.ListToArray(r.Sexp)
				if len(l) != 3 || !equalRecords(va, l[0]) || !equalRecords(vb, l[1]) || !equalRecords(va, l[2]) {
					c.Violation("interleaved-roundtrip", "C11/interleaved-roundtrip/"+codec, w, fmt.Sprintf("a = %s, b = %s: after encoding a, then b (twice), decoding the three byte strings a, b, a gives %s", clipS(va.SexpString(nil), 80), clipS(vb.SexpString(nil), 80), clipS(r.Sexp.SexpString(nil), 200)))
				}
				c.Outcome(w)
			}
		}
	}
}

func c11all(thorough bool, f func(v c11val, class string) bool) {
	scal := c11scalars(thorough)
	strs := c11strings(thorough)
	for _, v := range scal {
		if !f(v, "scalar") {
			return
		}
	}
	for _, v := range strs {
		if !f(v, "string") {
			return
		}
	}
	small := []c11val{c11nil(), c11bool(true), c11int(-1), c11int(math.MaxInt64), c11float(2.5), c11float(1e21), c11str("a\"b"), c11str("é\n"), c11str("")}
	// arrays
	f(c11arr(), "array")
	for _, a := range append(append([]c11val{}, scal...), strs[:200]...) {
		if !f(c11arr(a), "array") {
			return
		}
	}
	for _, a := range small {
		for _, b := range small {
			if !f(c11arr(a, b), "array") || !f(c11arr(c11arr(a), b), "array-nested") {
				return
			}
		}
	}
	// hashes and records, symbol keys; all 6 orders of three keys
	orders := [][]string{{"a", "b", "c"}, {"a", "c", "b"}, {"b", "a", "c"}, {"b", "c", "a"}, {"c", "a", "b"}, {"c", "b", "a"}}
	for _, typ := range []string{"hash", "ranch"} {
		f(c11hash(typ, false, nil, nil), typ)
		for _, a := range append(append([]c11val{}, scal...), strs[:300]...) {
			if !f(c11hash(typ, false, []string{"k"}, []c11val{a}), typ) {
				return
			}
		}
		for _, ord := range orders {
			for _, a := range small {
				for _, b := range small[:4] {
					if !f(c11hash(typ, false, ord, []c11val{a, b, c11int(3)}), typ+"-order") {
						return
					}
				}
			}
			// nested: hash in hash, array of hashes, hash holding array
			inner := c11hash("inner", false, []string{ord[2], ord[0]}, []c11val{c11int(1), c11str("x")})
			if !f(c11hash(typ, false, ord, []c11val{inner, c11arr(inner, c11int(2)), c11str("z")}), typ+"-nested") ||
				!f(c11arr(c11hash(typ, false, ord, []c11val{c11int(1), inner, c11nil()})), typ+"-nested") {
				return
			}
		}
		// field names that need care
		for _, k := range []string{"Zed", "zz", "a1", "with_underscore", "B", "z", "zKeyOrderX", "Atypes", "Age", "ABC", "A", "A0", "Addr", "Atyp", "zKeyOrde", "zz9"} {
			if !f(c11hash(typ, false, []string{k, "a"}, []c11val{c11int(1), c11int(2)}), typ+"-fieldname") {
				return
			}
		}
	}
	// members stored under dotted symbol keys next to the members their path would resolve to
	for _, typ := range []string{"hash", "ranch"} {
		for _, ks := range [][]string{{".k", "k"}, {"k", ".k"}, {"a.b", "k"}, {".zz", "k"}} {
			if !f(c11hash(typ, false, ks, []c11val{c11int(1), c11int(2)}), typ+"-dotkey") {
				return
			}
		}
		inner := c11hash("inner", false, []string{"b"}, []c11val{c11int(7)})
		if !f(c11hash(typ, false, []string{"a", ".a.b", "a.b"}, []c11val{inner, c11int(8), c11int(9)}), typ+"-dotkey") {
			return
		}
	}
	// one container object reachable twice inside one value (sharing without a cycle)
	for _, script := range []string{
		`(let [p (hash x: 1 y: "a")] (hash first: p second: p all: [p p]))`, `(let [e []] [e e [e]])`, `(let [e (hash)] [e e])`, `(let [e []] (hash a: e b: e))`,
		`(begin (defmap ranch) (let [r (ranch k: 2)] [r r (hash in: r)]))`, `(let [a [1 2]] (let [b [a a]] [b a b]))`,
	} {
		script := script
		v := c11val{"X:" + script, func(env *zygo.Zlisp) zygo.Sexp {
			r := zy.Eval(env, script)
			if !r.OK() {
				return zygo.SexpNull
			}
			return r.Sexp
		}}
		if !f(v, "shared-container") {
			return
		}
	}
	// the same through the script-level route, where the keys really are dot-symbols
	for _, script := range []string{
		`(let [h (hash k: 2)] (hset h (quote .k) 1) h)`, `(let [h (hash)] (hset h (quote .k) 1) (hset h k: 2) h)`,
		`(let [h (hash a: (hash b: 7))] (hset h (quote .a.b) 8) h)`, `(let [h (hash a: (hash b: 7))] (hset h (quote a.b) 9) h)`, `(let [h (hash k: 2)] (hset h (quote .zz) 1) h)`,
		`(begin (defmap ranch) (let [h (ranch k: 2)] (hset h (quote .k) 1) h))`,
	} {
		script := script
		v := c11val{"X:" + script, func(env *zygo.Zlisp) zygo.Sexp {
			r := zy.Eval(env, script)
			if !r.OK() {
				return zygo.SexpNull
			}
			return r.Sexp
		}}
		if !f(v, "dotkey-script") {
			return
		}
	}
	// strings written as raw (backtick) literals: the same characters as a quoted string, whatever the spelling
	for _, body := range []string{`C:\new\table`, `say "hi"`, "two\nlines", `\u00e9\x41`, `100% %d`, `tab\there`, `a\`, `"`, `\"`, "line1\nline2 \"q\" \\"} {
		body := body
		for _, shape := range []string{"`B`", "[`B` 1]", "(hash k: `B`)", "(begin (defmap ranch) (ranch name:\"build\" path:`B`))", "(hash k: [`B` `B`])", "(concat `B` \"!\")"} {
			script := strings.ReplaceAll(shape, "B", body)
			v := c11val{"X:" + script, func(env *zygo.Zlisp) zygo.Sexp {
				r := zy.Eval(env, script)
				if !r.OK() {
					return zygo.SexpNull
				}
				return r.Sexp
			}}
			if !f(v, "raw-string") {
				return
			}
		}
	}
	// string keys (JSON-style source literals): JSON text only
	for _, k := range []string{"k", "two words", "q\"uote", "back\\slash", "é", "\n", "", "Atype2", "1"} {
		for _, a := range small {
			if !f(c11hash("hash", true, []string{k}, []c11val{a}), "stringkeys") {
				return
			}
		}
	}
	f(c11hash("hash", true, []string{"a", "b"}, []c11val{c11hash("hash", true, []string{"c"}, []c11val{c11int(1)}), c11arr(c11int(1), c11str("s"))}), "stringkeys")
}

func init() {
	engine.Register(&engine.Check{
		ID:    "C11",
		Level: "exploration",
		Rule: "values: nil, bools, 18 boundary ints, ~190 finite floats, 1-char strings over U+0000..U+20FF + every 257th scalar above + representatives [thorough: all Unicode scalars], all 2-char strings over a 21-char adversarial pool; strings written as raw (backtick) literals holding backslashes, quotes, newlines and % (bare, in arrays, hashes, records, concatenated); interleaving: encode a, encode b twice, then decode a, b, a for all ordered pairs of 14 values; shapes: scalar, arrays (1, 2 elements, nested), hashes and named records with symbol keys (1 key x every scalar, 3 keys in all 6 orders, nested two levels, awkward field names), hashes with string keys; " +
			"(unjson (json v)) and (unmsgpack (msgpack v)) must equal v incl. record type names and key order at every level; the bytes of (json v) must be accepted by encoding/json and denote the same data",
		Assumptions: []string{"NaN/Inf are excluded (JSON has no spelling for them)", "for string-keyed hashes only the JSON text is judged (decoding yields symbol keys)"},
		Run: func(c *engine.Ctx) {
			env := zy.New(true)
			defer env.Close()
			c11all(c.Thorough(), func(v c11val, class string) bool {
				if c.Mine() {
					c11case(c, env, v, class)
				}
				return !c.Expired()
			})
			c11interleaved(c, env, "")
		},
		Replay: func(c *engine.Ctx, w string) {
			env := zy.New(true)
			defer env.Close()
			if strings.HasPrefix(w, "Q|") {
				c11interleaved(c, env, w)
				for i := range c.Viol {
					c.Viol[i].Key = "*"
				}
				return
			}
			for _, th := range []bool{false, true} {
				found := false
				c11all(th, func(v c11val, class string) bool {
					if v.spec == w {
						c11case(c, env, v, class)
						found = true
						return false
					}
					return true
				})
				if found {
					break
				}
			}
			for i := range c.Viol {
				c.Viol[i].Key = "*"
			}
		},
	})
}
