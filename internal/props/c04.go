package props

import (
	"bytes"
	"fmt"
	"regexp"
	"sort"
	"strconv"
	"strings"

	"github.com/glycerine/zygomys/v9/zygo"

	"verif/internal/engine"
	"verif/internal/explore"
	"verif/internal/gen"
	. "verif/internal/ref"
	"verif/internal/zy"
)

// C04 — an evaluation that succeeds leaves nothing behind.
//
// (A) explicit-state BFS over histories of evaluations on one long-lived
// interpreter: alphabet = one representative per form family of the full
// surface language (core forms, declarations, macros, range, infix, packages,
// failing forms, empty input). In every state: stacks at rest, empty input
// evaluates to nil, and evaluating the same forms in one call gives the same
// value and the same state as evaluating them one at a time.
// (B) the program grammars of C02/C03/C09/C16 evaluated in batches on one
// interpreter, stacks checked after every success.

var c04alphabet = []string{
	`(def a 1)`,
	`(set a (mod (+ a 1) 3))`,
	`(defn f [x] (+ x a))`,
	`(f 2)`,
	`(let [q 1] (for [(def i 0) (< i 3) (set i (+ i 1))] (cond (== i 1) (break) q)))`,
	`(for [(def i 0) (< i 2) (set i (+ i 1))] (let [q i] (cond (== i 0) (continue) q)))`,
	`(struct S [(field X: int64 e:0) (field Y: string e:1)])`,
	`(def s (S X: 3))`,
	`(var v int64)`,
	`(func g [n:int64] [m:int64] (return (+ n 1)))`,
	`(g n:4)`,
	`(method [(p *S)] Hello [] [r:string] (return "hi"))`,
	`(interface Greeter [(func Hello [] [r:string])])`,
	`(defmac m [x] ^(+ ~x 1))`,
	`(m 2)`,
	`{b = 3 + 4 * 2}`,
	`{b := 1; b++; b}`,
	`(def p (package "pk" { World := "earth"; (defn Fun [x] (concat World x)) }))`,
	`(p.Fun "z")`,
	`(range k v (hash a: 1 b: 2) (+ v 1))`,
	`(defn lp [n acc] (cond (== n 0) acc (lp (- n 1) (+ acc n))))`,
	`(lp 5 0)`,
	`(map (fn [x] (* x 2)) [1 2 3])`,
	`((fn [#z] (force #z)) (+ 1 2))`,
	`(eval (quote (+ 1 2)))`,
	`(macexpand (m 5))`,
	`[1 (+ 1 1) "s"]`,
	`(hash k: [1 2] j: (hash z: 1))`,
	`(fail 0)`,
	`(undefinedfn 1)`,
	`(let)`,
	`(f 1 2)`,
	`(+ 1`,
	``,
	`7`,
	`(and 1 (or false 2) (cond false 3 4))`,
	`(begin (newScope (def z 5) z) (letseq [x 1 y x] (+ x y)))`,
	`(def h (hash a: 1))`,
	`(begin (hset h b: 2) (hdel h a:) (len h))`,
	`(str (list 1 2 (array 3)))`,
	`(assert (== 1 1))`,
	`(mdef m1 m2 (list 1 2))`,
	`(a2 b2 = 1 2)`,
	`(begin (def v3 [1 2 3]) (set (arrayidx v3 [1]) 5) v3)`,
	`{v4 := [1 2 3]; v4[0] = 9; v4}`,
	`(for outer: [(def i 0) (< i 2) (set i (+ i 1))] (for [(def j 0) (< j 2) (set j (+ j 1))] (cond (== j 1) (continue outer:) nil)))`,
	`(for [(def i 0) (< i 3) (set i (+ i 1))] (def pb (package "pb" { (def A i) (cond (== i 1) (break) nil) })))`,
	`(for [(def i 0) (< i 3) (set i (+ i 1))] (def pc (package "pc" { (cond (== i 1) (continue) nil) (def A i) })))`,
	`(begin (defn pg [n] (cond (== n 0) 7 (package "pq" { (def B n) (pg (- n 1)) }))) (type? (pg 2)))`,
	`(for [(def i 0) (< i 3) (set i (+ i 1))] (let [x 1] (and (cond (== i 1) (break) 1) 1)))`,
	`(for [(def i 0) (< i 3) (set i (+ i 1))] (newScope (def y 2) (cond (begin (cond (== i 1) (continue) nil) true) 1 2)))`,
	`(for [(def i 0) (< i 3) (set i (+ i 1))] (let [x 1] (or false (cond (== i 2) (break) nil) 1)))`,
	`((fn [a b] a) 7 (map (fn [x] (return)) [1 2]))`,
	// a self-call inside an argument of the tail self-call (the inner call is not in tail position)
	`(begin (defn idem [k x] (cond (== k 0) x (idem 0 (idem (- k 1) x)))) (idem 3 7))`,
	`(begin (defn ack [u w] (cond (== u 0) (+ w 1) (== w 0) (ack (- u 1) 1) (ack (- u 1) (ack u (- w 1))))) (ack 2 2))`,
	// failing forms after which the host does NOT call Clear (an embedding host need not): what they leave behind must
	// not make a later successful evaluation end up away from rest
	`!(for [(def i 0) (< i 1) (set i (+ i 1))] (let))`,
	`!(for [(let)] 1)`,
	`!(f (fail 0))`,
	// evaluations made by the host through the Go API rather than from source text
	`@apply f 4`,   // env.Apply of the compiled function bound to f
	`@apply str 4`, // env.Apply of a builtin
	`@apply lp 3 0`,
	`@loadrun (+ a 1)`,         // env.LoadString + env.Run
	`@evalexprs (f 1)`,         // env.EvalExpressions of a parsed form
	`@load2 (+ a 1) | (+ a 2)`, // two env.LoadString calls, then one env.Run
}

// c04host performs an evaluation through the Go API.
func c04host(tr *zy.Traced, op string) (res zy.Res) {
	defer func() {
		if r := recover(); r != nil {
			res = zy.Res{Panic: fmt.Sprint(r)}
		}
	}()
	env := tr.Env
	fields := strings.SplitN(op, " ", 2)
	done := func(v zygo.Sexp, err error) zy.Res {
		if err != nil {
			return zy.Res{Err: err.Error()}
		}
		if v == nil {
			return zy.Res{NilVal: true}
		}
		return zy.Res{Val: zy.Canon(v), Sexp: v}
	}
	switch fields[0] {
	case "@apply":
		parts := strings.Fields(fields[1])
		obj, found := env.FindObject(parts[0])
		fn, isFn := obj.(*zygo.SexpFunction)
		if !found || !isFn {
			return zy.Res{Err: parts[0] + " is not a function here"}
		}
		var args []zygo.Sexp
		for _, a := range parts[1:] {
			n, _ := strconv.Atoi(a)
			args = append(args, &zygo.SexpInt{Val: int64(n)})
		}
		return done(env.Apply(fn, args))
	case "@loadrun":
		if err := env.LoadString(fields[1] + "\n"); err != nil {
			return zy.Res{Err: err.Error()}
		}
		return done(env.Run())
	case "@load2":
		parts := strings.SplitN(fields[1], " | ", 2)
		for _, t := range parts {
			if err := env.LoadString(t + "\n"); err != nil {
				return zy.Res{Err: err.Error()}
			}
		}
		return done(env.Run())
	case "@evalexprs":
		ps := env.VerifParser()
		ps.ResetAddNewInput(bytes.NewBufferString(fields[1] + "\n"))
		xs, err := ps.ParseTokens()
		if err != nil {
			return zy.Res{Err: err.Error()}
		}
		return done(env.EvalExpressions(xs))
	}
	return zy.Res{Err: "unknown host operation"}
}

type c04state struct {
	key   string
	last  zy.Res
	allOK bool
}

var c04ptr = regexp.MustCompile(`0x[0-9a-f]{6,}`)

func c04names(env *zygo.Zlisp) map[string]bool {
	m := map[string]bool{}
	for _, n := range env.VerifGlobalNames() {
		m[n] = true
	}
	return m
}

// c04globals renders the user-made global bindings (those not present when
// the interpreter was created), with pointer values scrubbed.
func c04globals(env *zygo.Zlisp, c04initial map[string]bool) string {
	var parts []string
	for _, n := range env.VerifGlobalNames() {
		if c04initial[n] {
			continue
		}
		v, _ := env.VerifGlobal(n)
		s := "?"
		if v != nil {
			func() {
				defer func() { recover() }()
				s = zy.Canon(v)
			}()
		}
		// generated names carry counters; keep the binding, not the number
		if strings.HasPrefix(n, "__") {
			continue
		}
		parts = append(parts, n+"="+s)
	}
	sort.Strings(parts)
	parts = append(parts, "macros="+strings.Join(env.VerifMacroNames(), ","))
	return c04ptr.ReplaceAllString(strings.Join(parts, ";"), "0xPTR")
}

func depthsStr(d zygo.VerifDepths) string {
	return fmt.Sprintf("data=%d scope=%d addr=%d loop=%d", d.Data, d.Scope, d.Addr, d.Loop)
}

func atRest(d zygo.VerifDepths) bool {
	return d.Data == 0 && d.Scope == 1 && d.Addr == 0 && d.Loop == 0
}

// c04history evaluates the history one form at a time on a fresh interpreter.
func c04history(c *engine.Ctx, hist []int, record bool) string {
	var texts []string
	for _, h := range hist {
		texts = append(texts, c04alphabet[h])
	}
	w := fmt.Sprint(hist)
	if record {
		c.Begin(w)
	}
	tr := zy.NewTraced(true)
	defer func() { tr.Env.Close() }()
	initial := c04names(tr.Env)
	zygo.VerifSetStepBudget(2000000)
	allOK := true
	var last zy.Res
	lastName := "start"
	hostOps := false
	for i, t := range texts {
		noClear := false
		if strings.HasPrefix(t, "!") {
			noClear, hostOps = true, true
			t = t[1:]
		}
		if strings.HasPrefix(t, "@") {
			hostOps = true
			last = c04host(tr, t)
		} else {
			last = tr.Run(t)
		}
		d := tr.Env.VerifDepths()
		if i == len(texts)-1 && record {
			lastName = fmt.Sprintf("%d", hist[i])
			if last.Panic != "" {
				c.Violation("panic", "C04/panic/"+lastName, w, fmt.Sprintf("%q panicked: %s", t, last.Panic))
			}
			if last.OK() && !atRest(d) {
				c.Violation("not-at-rest", "C04/not-at-rest/"+lastName, w, fmt.Sprintf("after the successful evaluation of %q (history %q): %s", t, texts[:i], depthsStr(d)))
			}
			if last.OK() {
				// the interpreter serves the next evaluation: a fixed sum gives its value
				if pr := tr.Run("(+ 40 2)"); pr.Short() != "42" {
					c.Violation("next-evaluation", "C04/next-evaluation/"+lastName, w, fmt.Sprintf("after the successful %q, evaluating (+ 40 2) gives %s", t, pr))
				}
				e := tr.Run("")
				if e.Short() != "nil" {
					c.Violation("empty-input", "C04/empty-input/"+lastName, w, fmt.Sprintf("after %q, evaluating empty input gives %s instead of nil", t, e))
				}
				d2 := tr.Env.VerifDepths()
				if !atRest(d2) {
					c.Violation("not-at-rest", "C04/not-at-rest-after-empty/"+lastName, w, depthsStr(d2))
				}
			}
		}
		if !last.OK() {
			allOK = false
			// what a failure leaves behind is C05's business; the REPL clears
			if !noClear {
				tr.Env.Clear()
			}
		}
	}
	d := tr.Env.VerifDepths()
	// (whether the main program is empty — a fresh interpreter, or one cleared after a failure — is part of the state:
	// loading code behaves differently at program counter 0)
	plain := depthsStr(d) + "|" + c04globals(tr.Env, initial)
	key := fmt.Sprintf("fresh=%v ", d.PC == 0 && d.MainLen == 0) + plain
	if record && allOK && len(texts) >= 2 && !hostOps {
		// together vs one at a time
		tw := zy.NewTraced(true)
		twInitial := c04names(tw.Env)
		for n := range initial { // the type registry is process-wide: names known to either side at creation are not user globals
			twInitial[n] = true
		}
		r := tw.Run(strings.Join(texts, "\n"))
		dk := depthsStr(tw.Env.VerifDepths()) + "|" + c04globals(tw.Env, twInitial)
		tw.Env.Close()
		scrub := func(x string) string { return c04ptr.ReplaceAllString(x, "0xPTR") }
		if texts[len(texts)-1] == "" {
			// an empty last form contributes nothing to the joined text
		} else if scrub(r.Short()) != scrub(last.Short()) || (r.OK() && dk != plain) {
			c.Violation("together-vs-apart", "C04/together-vs-apart/"+lastName, w, fmt.Sprintf("forms %q evaluated in one call give %s (state %s); one at a time %s (state %s)", texts, r, clipS(dk, 300), last, clipS(plain, 300)))
		}
	}
	if record {
		c.Outcome(c04ptr.ReplaceAllString(last.Short(), "0xPTR") + "|" + key)
	}
	return key
}

// ---- (B) program grammars in batches on one interpreter

func c04batch(c *engine.Ctx, progs []string) {
	w := "B|" + strings.Join(progs, "\x1f")
	c.Begin(w)
	tr := zy.NewTraced(true)
	defer tr.Env.Close()
	zygo.VerifSetStepBudget(0)
	tr.Run(layout(c02prelude(), 0))
	tr.Run(layout(c03prelude(), 0))
	tr.Run(layout(c09prelude(), 0))
	for _, p := range progs {
		zygo.VerifSetStepBudget(60000)
		r := tr.Run(p)
		d := tr.Env.VerifDepths()
		c.Count("batch_programs", 1)
		if r.OK() {
			if !atRest(d) {
				sk := shapeKey(Parse(p), 3)
				c.Violation("not-at-rest", "C04/program-not-at-rest/"+sk, w, fmt.Sprintf("after the successful evaluation of %s: %s", p, depthsStr(d)))
				return
			}
			c.Outcome(depthsStr(d) + "|" + r.Short())
		} else {
			tr.Env.Clear()
		}
	}
	e := tr.Run("")
	if e.Short() != "nil" {
		c.Violation("empty-input", "C04/empty-input-after-batch", w, "empty input evaluates to "+e.String())
	}
}

func init() {
	engine.Register(&engine.Check{
		ID:    "C04",
		Level: "model_checking",
		Rule: "explicit-state BFS over histories of evaluations on one long-lived interpreter (StandardSetup): alphabet of 64 operations, one per family of the full surface language (core forms, struct/var/func/method/interface, defmac and macro calls, macexpand, range, infix blocks, package, tail recursion, lazy forcing, eval, failing forms, unparsable text, empty input, and evaluations made through the Go API: Apply of a compiled function and of a builtin, LoadString+Run, EvalExpressions); " +
			"state key = four stack depths + sorted printed user globals; in every state: stacks at rest after a success, empty input gives nil, all forms in one call == one at a time; depth 3 (thorough 4). " +
			"Plus the C02/C03/C09/C16 program grammars evaluated in batches of 40 on one interpreter with the stacks checked after each success; distinct_nontrivial = distinct (value, state) outcomes",
		Assumptions: []string{"depths are read through the verif accessor VerifDepths", "after a failed evaluation the interpreter is cleared as the REPL does (what a failure leaves behind is C05)"},
		Run: func(c *engine.Ctx) {
			depth := 3
			if c.Thorough() {
				depth = 4
			}
			b := &explore.BFS{NOps: len(c04alphabet), Depth: depth, ShardLevel: 1, Step: func(h []int, record bool) (string, bool) {
				return c04history(c, h, record), true
			}}
			b.Run(c)
			// (B)
			var batch []string
			nb := int64(0)
			flush := func() {
				if len(batch) == 0 {
					return
				}
				nb++
				if c.MineIdx(nb) {
					c04batch(c, batch)
				}
				batch = nil
			}
			add := func(t *T) bool {
				txt := gen.Renumber(t).Text()
				if strings.Count(txt, "(defn k ") > 1 {
					return true // re-binding the running function's own name: recorded finding of C02, can recurse without bound
				}
				batch = append(batch, txt)
				if len(batch) == 40 {
					flush()
				}
				return !c.Expired()
			}
			all := append(append([]gen.Ctx{}, c02control()...), c02data()...)
			gen.EnumFull(all, c02leaves(), 1, add)
			sib := []*T{gen.T1(Int(1))}
			gen.EnumChains(c02control(), c02leaves()[:3], sib, 2, add)
			gen.EnumChains(c03ctx(), c03leaves(), c03leaves()[:1], 2, add)
			c09chains(2, func(name string, t *T) {
				for _, k := range c09kinds() {
					for _, f := range c09program(t, k, 3) {
						add(f)
					}
				}
			})
			if c.Thorough() {
				c16each(func(lazy []bool, use []string, variadic bool) {
					for _, route := range c16routes {
						forms := c16program(lazy, use, variadic, route, -1, 0)
						for _, f := range forms {
							add(f)
						}
					}
				})
			}
			flush()
		},
		Replay: func(c *engine.Ctx, w string) {
			if strings.HasPrefix(w, "B|") {
				c04batch(c, strings.Split(w[2:], "\x1f"))
			} else {
				var hist []int
				for _, f := range strings.Fields(strings.Trim(w, "[]")) {
					var x int
					fmt.Sscan(f, &x)
					hist = append(hist, x)
				}
				c04history(c, hist, true)
			}
			for i := range c.Viol {
				c.Viol[i].Key = "*"
			}
		},
	})
}
