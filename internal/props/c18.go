package props

import (
	"fmt"
	"strings"
	"unicode"

	"github.com/glycerine/zygomys/v9/zygo"

	"verif/internal/engine"
	"verif/internal/zy"
)

// C18 — package members are private unless capitalised.

type c18member struct {
	path   []string // names from the top package down to the member (or hash field)
	kind   string   // value, func, hashfield, hashsubfield
	value  int      // the unique number it denotes
	hashes []int    // indices into path of the hops that are hashes
	pkgs   int      // number of leading hops that are packages
}

// c18build returns the source of a package tree of the given depth and the list of its members.
func c18build(depth int) (string, []c18member) {
	var members []c18member
	counter := 100
	var gen func(name string, path []string, d int) string
	gen = func(name string, path []string, d int) string {
		var sb strings.Builder
		sb.WriteString(`(package "` + name + `" { `)
		for _, v := range []string{"Val", "val", "_val", "Éval", "éval", "Ｚed", "ｚed", "Ωm", "ωm"} {
			counter++
			sb.WriteString(fmt.Sprintf("(def %s %d) ", v, counter)) // def, not :=, which would update a same-named member of the enclosing package
			members = append(members, c18member{path: append(append([]string{}, path...), v), kind: "value", value: counter, pkgs: len(path)})
		}
		for _, f := range []string{"Fn", "fn1", "_fn"} {
			counter++
			sb.WriteString(fmt.Sprintf("(defn %s [] %d) ", f, counter))
			members = append(members, c18member{path: append(append([]string{}, path...), f), kind: "func", value: counter, pkgs: len(path)})
		}
		for _, h := range []string{"Hh", "hh", "_hh"} {
			counter += 3
			sb.WriteString(fmt.Sprintf("(def %s (hash F: %d g: %d Sub: (hash Deep: %d))) ", h, counter-2, counter-1, counter))
			base := append(append([]string{}, path...), h)
			members = append(members,
				c18member{path: append(append([]string{}, base...), "F"), kind: "hashfield", value: counter - 2, hashes: []int{len(path)}, pkgs: len(path)},
				c18member{path: append(append([]string{}, base...), "Sub", "Deep"), kind: "hashsubfield", value: counter, hashes: []int{len(path)}, pkgs: len(path)})
		}
		// inside code: full access to private members, also when called from outside
		sb.WriteString("(defn Id [x] x) (defn GetVal [] val) (defn SetVal [v] (set val v)) (defn Get_val [] _val) (defn CallPriv [] (fn1)) (defn GetHidden [] (hget hh F:)) (defn GetPub [] Val) (defn SetPub [v] (set Val v)) ")
		if d > 1 {
			for _, p := range []string{"Pk", "pk", "_pk"} {
				sb.WriteString("(def " + p + " " + gen(p, append(append([]string{}, path...), p), d-1) + ") ")
			}
		}
		sb.WriteString("})")
		return sb.String()
	}
	src := "(def top " + gen("top", nil, depth) + ")"
	return src, members
}

func capitalised(name string) bool {
	r := []rune(name)
	return len(r) > 0 && unicode.IsUpper(r[0])
}

// R7: is the member reachable from outside?
func (m c18member) allowed() bool {
	last := m.path[len(m.path)-1]
	switch m.kind {
	case "value", "func":
		return capitalised(last)
	case "hashfield", "hashsubfield":
		// every hash on the way must be stored under a capitalised name; fields of a hash are not package members
		return capitalised(m.path[m.pkgs])
	}
	return false
}

type c18route struct {
	name string
	// read builds a form that yields the member's value; alias forms first bind an alias
	read func(root string, rest []string, kind string) string
}

func c18dotted(root string, rest []string) string { return root + "." + strings.Join(rest, ".") }

func c18reads() []c18route {
	return []c18route{
		{"operand", func(root string, rest []string, kind string) string {
			if kind == "func" {
				return "(+ (" + c18dotted(root, rest) + ") 0)"
			}
			return "(+ " + c18dotted(root, rest) + " 0)"
		}},
		{"rhs-of-def", func(root string, rest []string, kind string) string {
			if kind == "func" {
				return "(begin (def tmpf " + c18dotted(root, rest) + ") (+ (tmpf) 0))"
			}
			return "(begin (def tmpv " + c18dotted(root, rest) + ") (+ tmpv 0))"
		}},
		{"infix-rhs", func(root string, rest []string, kind string) string {
			if kind == "func" {
				return "{tmq = (" + c18dotted(root, rest) + ") + 0}"
			}
			return "{tmq = " + c18dotted(root, rest) + " + 0}"
		}},
		// the member named by a one-element dot path handed to a public function of its package (the path is resolved late,
		// inside the callee, where private names are in scope)
		{"dot-argument", func(root string, rest []string, kind string) string {
			if kind != "value" || len(rest) == 0 {
				return ""
			}
			pkg := root
			if len(rest) > 1 {
				pkg = c18dotted(root, rest[:len(rest)-1])
			}
			return "(+ 0 (" + pkg + ".Id ." + rest[len(rest)-1] + "))"
		}},
		{"dot-argument-quoted", func(root string, rest []string, kind string) string {
			if kind != "value" || len(rest) == 0 {
				return ""
			}
			pkg := root
			if len(rest) > 1 {
				pkg = c18dotted(root, rest[:len(rest)-1])
			}
			return "(+ 0 (" + pkg + ".Id (quote ." + rest[len(rest)-1] + ")))"
		}},
		{"dot-argument-computed", func(root string, rest []string, kind string) string {
			if kind != "value" || len(rest) == 0 {
				return ""
			}
			pkg := root
			if len(rest) > 1 {
				pkg = c18dotted(root, rest[:len(rest)-1])
			}
			return "(+ 0 (" + pkg + ".Id (cond true (begin ." + rest[len(rest)-1] + ") 0)))"
		}},
		{"dot-argument-map", func(root string, rest []string, kind string) string {
			if kind != "value" || len(rest) == 0 {
				return ""
			}
			pkg := root
			if len(rest) > 1 {
				pkg = c18dotted(root, rest[:len(rest)-1])
			}
			return "(begin (def idf " + pkg + ".Id) (+ 0 (first (map idf [(quote ." + rest[len(rest)-1] + ")])) (apply idf [(quote ." + rest[len(rest)-1] + ")])))"
		}},
		{"argument", func(root string, rest []string, kind string) string {
			if kind == "func" {
				return "(first (list (" + c18dotted(root, rest) + ")))"
			}
			return "(first (list " + c18dotted(root, rest) + "))"
		}},
	}
}

var (
	c18sharedEnv  *zygo.Zlisp
	c18sharedSrc  string
	c18sharedUses int
)

func c18case(c *engine.Ctx, src string, m c18member, aliasDepth int, route c18route, write string) {
	// aliasDepth: 0 = path from top; k>0 = an alias bound to the package k levels down (only through packages)
	if aliasDepth > m.pkgs {
		return
	}
	root := "top"
	rest := m.path
	setup := ""
	if aliasDepth > 0 {
		root = "al"
		setup = "(def al " + c18dotted("top", m.path[:aliasDepth]) + ")"
		rest = m.path[aliasDepth:]
		if aliasDepth == 0 {
			setup = "(def al top)"
		}
	} else if aliasDepth == -1 {
		root = "al"
		setup = "(def al top)"
	} else if aliasDepth == -2 {
		// the package value held in a plain hash of the script's own
		root = "reg.pk"
		setup = "(def reg (hash pk: top))"
	}
	w := fmt.Sprintf("%s|%d|%s|%s", strings.Join(m.path, "."), aliasDepth, route.name, write)
	c.Begin(w)
	var env *zygo.Zlisp
	if write == "" && !c.Replaying && c18sharedEnv != nil && c18sharedSrc == src && c18sharedUses < 400 {
		// reads do not change the package tree: one interpreter serves a run of read cases (a replay, and every
		// write, gets a fresh one)
		env = c18sharedEnv
		c18sharedUses++
		zygo.VerifSetStepBudget(300000)
	} else {
		env = zy.New(true)
		zygo.VerifSetStepBudget(300000)
		if r := zy.Eval(env, src); !r.OK() {
			panic("c18 package source: " + r.String())
		}
		if write == "" && !c.Replaying {
			if c18sharedEnv != nil {
				c18sharedEnv.Close()
			}
			c18sharedEnv, c18sharedSrc, c18sharedUses = env, src, 0
		} else {
			defer env.Close()
		}
	}
	if setup != "" {
		if r := zy.Eval(env, setup); !r.OK() {
			// binding an alias to a nested package must work whatever the case of its name
			c.Violation("alias", "C18/alias", w, fmt.Sprintf("%s failed: %s", setup, r))
			return
		}
	}
	allowed := m.allowed()
	cls := m.kind + "/" + route.name
	viol := func(clause, detail string) {
		c.Violation(clause, "C18/"+clause+"/"+cls, w, detail)
	}
	if write == "" {
		form := route.read(root, rest, m.kind)
		if form == "" {
			return // the route does not apply to this kind of member
		}
		r := zy.Eval(env, form)
		if r.Panic != "" {
			viol("panic", r.Panic)
			return
		}
		if allowed && strings.HasPrefix(route.name, "dot-argument") {
			// a one-element dot path is relative to the scope that resolves it: from outside it does not name the member
			// at all, public or not; only the privacy direction is judged on this route
		} else if allowed {
			if r.Short() != fmt.Sprint(m.value) {
				viol("public-not-readable", fmt.Sprintf("%s gives %s; the member is public and holds %d", form, r, m.value))
			}
		} else if r.OK() && r.Short() != "SELECTOR-ERR" { // (an unresolved dotted symbol that cannot be dereferenced is not a leak)
			viol("private-readable", fmt.Sprintf("%s gives %s; the member %s is private", form, r, strings.Join(m.path, ".")))
		}
		c.Outcome(cls + "|" + fmt.Sprint(allowed) + "|" + r.Short())
		return
	}
	// writes (values and hash fields only)
	var form string
	switch write {
	case "set":
		form = "(set " + c18dotted(root, rest) + " 5555)"
	case "infix":
		form = "{" + c18dotted(root, rest) + " = 5555}"
	}
	r := zy.Eval(env, form)
	if r.Panic != "" {
		viol("panic", r.Panic)
		return
	}
	// read back: through the path when public, through an inside getter when private
	after := ""
	if m.kind == "value" {
		last := m.path[len(m.path)-1]
		prefix := c18dotted("top", m.path[:len(m.path)-1])
		if len(m.path) == 1 {
			prefix = "top"
		}
		switch last {
		case "val":
			after = zy.Eval(env, "("+prefix+".GetVal)").Short()
		case "_val":
			after = zy.Eval(env, "("+prefix+".Get_val)").Short()
		case "Val":
			after = zy.Eval(env, "(+ "+prefix+".Val 0)").Short()
		}
	}
	if allowed {
		if !r.OK() {
			viol("public-not-writable", fmt.Sprintf("%s fails: %s", form, r))
		} else if after != "" && after != "5555" {
			viol("public-write-lost", fmt.Sprintf("after %s the member reads %s", form, after))
		}
	} else {
		if r.OK() {
			viol("private-writable", fmt.Sprintf("%s succeeded on the private member %s", form, strings.Join(m.path, ".")))
		}
		if after != "" && after != fmt.Sprint(m.value) {
			viol("private-changed", fmt.Sprintf("after the rejected %s the member holds %s instead of %d", form, after, m.value))
		}
	}
	c.Outcome(cls + "|w|" + fmt.Sprint(allowed) + "|" + r.Short())
}

// inside code keeps access, also when called from outside
func c18inside(c *engine.Ctx, src string, depth int) {
	var paths [][]string
	var rec func(p []string, d int)
	rec = func(p []string, d int) {
		paths = append(paths, p)
		if d > 1 {
			for _, n := range []string{"Pk", "pk", "_pk"} {
				rec(append(append([]string{}, p...), n), d-1)
			}
		}
	}
	rec(nil, depth)
	for _, p := range paths {
		if !c.Mine() {
			continue
		}
		prefix := "top"
		if len(p) > 0 {
			prefix = c18dotted("top", p)
		}
		w := "I|" + prefix
		c.Begin(w)
		env := zy.New(true)
		zy.Eval(env, src)
		a := zy.Eval(env, "(list ("+prefix+".GetVal) ("+prefix+".CallPriv) ("+prefix+".GetHidden) (begin ("+prefix+".SetVal 4321) ("+prefix+".GetVal)))")
		env.Close()
		if !a.OK() || !strings.HasSuffix(a.Short(), " 4321)") {
			c.Violation("inside-access", "C18/inside-access", w, fmt.Sprintf("public functions of %s reading/calling/writing its private members give %s", prefix, a))
		}
		// one member table: what package code writes is what an outside read sees, and the other way round
		public := true
		for _, el := range p {
			public = public && capitalised(el)
		}
		if public {
			env2 := zy.New(true)
			zy.Eval(env2, src)
			b := zy.Eval(env2, "(list (begin ("+prefix+".SetPub 777) (+ 0 "+prefix+".Val)) (begin (set "+prefix+".Val 888) ("+prefix+".GetPub)) (begin {"+prefix+".Val = 999} ("+prefix+".GetPub)) (+ 0 "+prefix+".Val))")
			env2.Close()
			if b.Short() != "(777 888 999 999)" {
				c.Violation("inside-outside-coherence", "C18/inside-outside-coherence", w, fmt.Sprintf("the public member %s.Val written by package code then read from outside, written from outside (set, infix) then read by package code, gives %s, want (777 888 999 999)", prefix, b))
			}
		}
		c.Outcome("inside|" + a.Short())
	}
}

func c18all(c *engine.Ctx, thorough bool, only string) {
	depth := 3
	if thorough {
		depth = 4
	}
	src, members := c18build(depth)
	for _, m := range members {
		for ad := -2; ad <= m.pkgs; ad++ {
			for _, rt := range c18reads() {
				if c.Expired() {
					return
				}
				if c.Mine() {
					c18case(c, src, m, ad, rt, "")
				}
			}
			if m.kind != "func" {
				for _, wr := range []string{"set", "infix"} {
					if c.Mine() {
						c18case(c, src, m, ad, c18reads()[0], wr)
					}
				}
			}
		}
	}
	c18inside(c, src, depth)
}

func init() {
	engine.Register(&engine.Check{
		ID:    "C18",
		Level: "exploration",
		Rule: "a package tree of depth 3 (thorough 4) in which every package holds values, functions and hashes (with a nested hash) under an upper-case, a lower-case and an underscore name, and nested packages stored under all three kinds of names; " +
			"for every member: every dot path from outside x {direct, alias of the top package, alias of each nested package on the way, the package held in a plain hash of the script} x 8 read routes (operand of a builtin / call through the path, right-hand side of def, infix right-hand side, argument, one-element dot path handed to a public function of the package literally / quoted / computed / through map and apply) and 2 write routes (set, infix assignment); " +
			"oracle R7: reachable iff the last hop is capitalised (for hash fields: iff the hash is stored under a capitalised name), nested packages traversable under any name; allowed -> the member's unique number / the write takes effect, denied -> an error and the member unchanged (read back through an inside getter); public functions keep access to private members, and a public member written by package code / from outside (set, infix) is the same variable for the other side",
		Assumptions: []string{"lower-case fields of a hash are not package members and are not judged"},
		Run:         func(c *engine.Ctx) { c18all(c, c.Thorough(), "") },
		Replay: func(c *engine.Ctx, w string) {
			if strings.HasPrefix(w, "I|") {
				for _, th := range []bool{false, true} {
					d := 3
					if th {
						d = 4
					}
					src, _ := c18build(d)
					c18inside(c, src, d)
				}
			} else {
				parts := strings.Split(w, "|")
				var ad int
				fmt.Sscan(parts[1], &ad)
				for _, d := range []int{3, 4} {
					src, members := c18build(d)
					done := false
					for _, m := range members {
						if strings.Join(m.path, ".") != parts[0] {
							continue
						}
						for _, rt := range c18reads() {
							if rt.name == parts[2] {
								c18case(c, src, m, ad, rt, parts[3])
								done = true
							}
						}
					}
					if done {
						break
					}
				}
			}
			for i := range c.Viol {
				c.Viol[i].Key = "*"
			}
		},
	})
}
