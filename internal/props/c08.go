package props

import (
	"fmt"
	"os"
	"os/exec"
	"path/filepath"
	"sort"
	"strings"
	"time"

	"github.com/glycerine/zygomys/v9/zygo"

	"verif/internal/engine"
)

// C08 — a sandboxed interpreter cannot reach the outside world.

type c08canary struct {
	dir     string
	files   map[string]string
	envName string
	envVal  string
}

func c08setup() *c08canary {
	dir, err := os.MkdirTemp("", "c08canary")
	if err != nil {
		panic(err)
	}
	k := &c08canary{dir: dir, envName: "VERIF_CANARY_ENV", envVal: "ENVSECRET-c08-7731", files: map[string]string{
		"canary.zy":    "(def CANARYMARK \"SRCSECRET-c08\")\n(println \"CANARY-RAN SRCSECRET-c08\")\n",
		"canarypkg.zy": "(package \"cpk\" { (def Secret \"PKGSECRET-c08\") })\n",
		"secret.txt":   "TOPSECRET-c08-9917\n",
	}}
	k.restore()
	return k
}

func (k *c08canary) restore() {
	entries, _ := os.ReadDir(k.dir)
	for _, e := range entries {
		if _, ok := k.files[e.Name()]; !ok {
			os.RemoveAll(filepath.Join(k.dir, e.Name()))
		}
	}
	for n, c := range k.files {
		os.WriteFile(filepath.Join(k.dir, n), []byte(c), 0o644)
	}
	os.Setenv(k.envName, k.envVal)
}

// breach returns a description of the first difference between the outside world and its initial state
func (k *c08canary) breach() string {
	entries, _ := os.ReadDir(k.dir)
	var names []string
	for _, e := range entries {
		names = append(names, e.Name())
	}
	sort.Strings(names)
	if strings.Join(names, ",") != "canary.zy,canarypkg.zy,secret.txt" {
		return "the canary directory now holds: " + strings.Join(names, ",")
	}
	for n, c := range k.files {
		b, err := os.ReadFile(filepath.Join(k.dir, n))
		if err != nil || string(b) != c {
			return "the canary file " + n + " was modified"
		}
	}
	if os.Getenv(k.envName) != k.envVal {
		return "the canary environment variable was changed to " + os.Getenv(k.envName)
	}
	return ""
}

// the secrets never occur in script text: they live only in the canary files and the environment
// (not numbers: a clock reading or a random number can contain any short digit string)
var c08secrets = []string{"TOPSECRET-c08", "ENVSECRET-c08", "SRCSECRET-c08", "PKGSECRET-c08", "CANARY-RAN"}

func c08leak(s string) string {
	for _, x := range c08secrets {
		if strings.Contains(s, x) {
			return x
		}
	}
	return ""
}

func (k *c08canary) menu() []string {
	return []string{
		fmt.Sprintf("%q", filepath.Join(k.dir, "canary.zy")),
		fmt.Sprintf("%q", filepath.Join(k.dir, "secret.txt")),
		fmt.Sprintf("%q", filepath.Join(k.dir, "newfile.txt")),
		fmt.Sprintf("%q", "echo PWNED > "+filepath.Join(k.dir, "pwned")),
		fmt.Sprintf("%q", k.envName),
		fmt.Sprintf("%q", filepath.Join(k.dir, "canarypkg.zy")),
		fmt.Sprintf("%q", "cat "+filepath.Join(k.dir, "secret.txt")),
		"0",
		"(quote env)",
	}
}

var c08special = []string{"and", "or", "cond", "quote", "def", "mdef", "fn", "defn", "begin", "let", "letseq", "assert", "defmac", "macexpand", "syntaxQuote", "include", "for", "set", "break", "continue", "newScope", "package", "return", "_ls"}

// names whose call legitimately does not return (they wait for another goroutine or for input)
var c08blocking = map[string]string{"<!": "channel receive blocks", "send": "channel send blocks", "sleep": "sleeps", "readline": "waits for input", "stdin": "waits for input"}

type c08evalRes struct {
	val, err string
	timeout  bool
	panicked string
}

func c08eval(env *zygo.Zlisp, src string) c08evalRes {
	done := make(chan c08evalRes, 1)
	go func() {
		var r c08evalRes
		defer func() {
			if x := recover(); x != nil {
				r.panicked = fmt.Sprint(x)
			}
			done <- r
		}()
		zygo.VerifSetStepBudget(200000)
		v, err := env.EvalString(src + "\n")
		if err != nil {
			r.err = err.Error()
			env.Clear()
			return
		}
		if v != nil {
			func() {
				defer func() { recover() }()
				r.val = v.SexpString(nil)
			}()
		}
	}()
	select {
	case r := <-done:
		return r
	case <-time.After(4 * time.Second):
		return c08evalRes{timeout: true}
	}
}

func c08newEnv(config string) *zygo.Zlisp {
	zygo.VerifSetStepBudget(0)
	env := zygo.NewZlispSandbox()
	if config == "sandbox+std" {
		env.StandardSetup()
	}
	return env
}

// c08name runs every argument vector through every call route for one name.
func c08name(c *engine.Ctx, k *c08canary, config, name string, maxArgs int) {
	w := config + "|" + name
	c.Begin(w)
	if why, blocks := c08blocking[name]; blocks {
		c.Note("excluded:"+name, why)
		return
	}
	env := c08newEnv(config)
	defer func() { env.Close() }()
	// capture stdout for the whole name
	old := os.Stdout
	tmp, _ := os.CreateTemp("", "c08out")
	os.Stdout = tmp
	defer func() {
		os.Stdout = old
		tmp.Seek(0, 0)
		b := make([]byte, 1<<18)
		n, _ := tmp.Read(b)
		tmp.Close()
		os.Remove(tmp.Name())
		if x := c08leak(string(b[:n])); x != "" {
			c.Violation("leak-stdout", "C08/leak-stdout/"+config+"/"+name, w, "standard output contains "+x)
		}
	}()
	menu := k.menu()
	var vectors [][]string
	var rec func(cur []string)
	rec = func(cur []string) {
		vectors = append(vectors, append([]string{}, cur...))
		if len(cur) == maxArgs {
			return
		}
		for _, m := range menu {
			rec(append(cur, m))
		}
	}
	rec(nil)
	routes := []string{"direct", "alias", "apply", "macro", "in-fn"}
	if config == "sandbox+std" {
		routes = append(routes, "eval-quote", "infix", "macro-time", "expectError")
	}
	timeouts := 0
	for _, vec := range vectors {
		args := strings.Join(vec, " ")
		for _, rt := range routes {
			var src string
			call := "(" + name + " " + args + ")"
			switch rt {
			case "direct":
				src = call
			case "alias":
				src = "(def al08 " + name + ") (al08 " + args + ")"
			case "apply":
				src = "(apply " + name + " [" + args + "])"
			case "macro":
				src = "(defmac mm08 [] ^" + call + ") (mm08)"
			case "in-fn":
				src = "((fn [] " + call + "))"
			case "eval-quote":
				src = "(eval (quote " + call + "))"
			case "macro-time": // evaluated while expanding, inside the duplicate interpreter the expander uses
				src = "(defmac mt08 [] (eval (quote " + call + "))) (mt08)"
			case "expectError": // its argument is evaluated by a duplicate interpreter
				src = "(expectError \"zz\" " + call + ")"
			case "infix":
				src = "{ q08 = " + call + " }"
			}
			r := c08eval(env, src)
			if len(vec) == 2 && rt == "alias" && vec[0] == menu[1] && vec[1] == menu[3] {
				c.AddSample(config + ": " + src)
			}
			c.Count("calls", 1)
			c.Evals++
			if r.timeout {
				timeouts++
				c.Count("blocked_calls", 1)
				// the interpreter is stuck in a goroutine: abandon it
				env = c08newEnv(config)
				if timeouts >= 3 {
					c.Note("blocking:"+name, "calls do not return within 4 s; remaining vectors skipped")
					return
				}
				continue
			}
			cls := "value"
			if r.err != "" {
				cls = "error:" + c01sig(r.err)
			} else if r.panicked != "" {
				cls = "panic"
			}
			c.Outcome(config + "|" + name + "|" + rt + "|" + cls)
			viol := func(clause, detail string) {
				c.Violation(clause, "C08/"+clause+"/"+config+"/"+name, w, detail+"\n  script: "+src)
			}
			if b := k.breach(); b != "" {
				viol("outside-world-changed", b)
				k.restore()
			}
			if x := c08leak(r.val); x != "" {
				viol("leak-value", "the returned value contains "+x+": "+clipS(r.val, 200))
			}
			if _, bound := env.VerifGlobal("CANARYMARK"); bound {
				viol("file-executed", "the canary source file was read and evaluated (CANARYMARK is now bound)")
				env.Close()
				env = c08newEnv(config)
			}
			if _, bound := env.VerifGlobal("cpk"); bound {
				viol("file-executed", "the canary package file was imported (cpk is now bound)")
				env.Close()
				env = c08newEnv(config)
			}
		}
	}
	c.Outcome(w)
}

// the command-line tool under -sandbox
func c08cli(c *engine.Ctx, k *c08canary) {
	bin := filepath.Join(os.TempDir(), fmt.Sprintf("c08zygo-%d", os.Getpid()))
	cmd := exec.Command("go", "build", "-o", bin, "./cmd/zygo")
	cmd.Dir = "/repo"
	cmd.Env = append(os.Environ(), "GOFLAGS=-mod=mod", "GOPROXY=off")
	if out, err := cmd.CombinedOutput(); err != nil {
		c.Note("cli", "could not build cmd/zygo: "+clipS(string(out), 200))
		return
	}
	defer os.Remove(bin)
	m := k.menu()
	forms := []string{
		"(include " + m[0] + ")", "(include [" + m[0] + "])", "(import " + m[5] + ")", "(import cp " + m[5] + ")", "(sys " + m[3] + ")", "(sys cat secret.txt)", "(sys env)", "(system " + m[3] + ")",
		"(source " + m[0] + ")", "(req " + strings.Trim(m[0], `"`) + ")", "(slurpf " + m[1] + ")", "(writef " + m[2] + " \"x\")", "(owritef " + m[2] + " \"x\")", "(save " + m[2] + " 1)",
		"(getenv " + m[4] + ")", "(setenv " + m[4] + " \"x\")", "(exit 3)", "(println (getenv " + m[4] + "))", "{ x = (sys " + m[3] + ") }", "(defmac mm [] ^(include " + m[0] + ")) (mm)",
		"(eval (quote (include " + m[0] + ")))", "(bsave " + m[2] + " 1)", "(bload " + m[1] + ")", "(def al sys) (al " + m[3] + ")",
	}
	// the sandbox flag together with the tool's other flags, in both orders
	flagSets := [][]string{{"-sandbox", "-quiet"}, {"-sandbox", "-demo", "-quiet"}, {"-demo", "-sandbox", "-quiet"}, {"-quiet", "-sandbox", "-exitonfail"}, {"-sandbox", "-no-liner", "-quiet"}, {"-trace=false", "-sandbox"}}
	for i, f := range forms {
		for fi, flags := range flagSets {
			if !c.Mine() {
				continue
			}
			w := fmt.Sprintf("CLI|%d|%d|%s", i, fi, f)
			c.Begin(w)
			cmd := exec.Command(bin, append(append([]string{}, flags...), "-c", f)...)
			cmd.Dir = k.dir
			cmd.Env = append(os.Environ(), k.envName+"="+k.envVal)
			cmd.Stdin = strings.NewReader("")
			out, _ := cmd.CombinedOutput()
			c.Count("cli_runs", 1)
			c.Evals++
			viol := func(clause, detail string) {
				c.Violation(clause, "C08/cli-"+clause+"/"+strings.Fields(strings.Trim(f, "({ "))[0]+"/"+strings.Join(flags, ","), w, detail+"\n  zygo "+strings.Join(flags, " ")+" -c "+f)
			}
			if b := k.breach(); b != "" {
				viol("outside-world-changed", b)
				k.restore()
			}
			if x := c08leak(string(out)); x != "" {
				viol("leak", "the output contains "+x+": "+clipS(string(out), 200))
			}
			if cmd.ProcessState != nil && cmd.ProcessState.ExitCode() == 3 {
				viol("exit", "the script chose the process exit status")
			}
			c.Outcome("cli|" + f + "|" + strings.Join(flags, ","))
		}
	}
}

// c08dynamic reaches for every outside-world primitive of the full interpreter by a name computed at run time.
func c08dynamic(c *engine.Ctx, k *c08canary, only string) {
	var names []string
	for n := range zygo.SystemFunctions() {
		names = append(names, n)
	}
	names = append(names, "sys", "import", "include", "req")
	sort.Strings(names)
	menu := k.menu()
	for _, config := range []string{"sandbox", "sandbox+std"} {
		for _, n := range names {
			w := "DYN|" + config + "|" + n
			if only != "" && only != w {
				continue
			}
			if only == "" && !c.Mine() {
				continue
			}
			c.Begin(w)
			env := c08newEnv(config)
			for _, a := range menu {
				for _, b := range []string{"", " " + menu[2], " \"x\""} {
					for ri, src := range []string{
						"(eval (list (str2sym \"" + n + "\") " + a + b + "))",
						"((eval (str2sym \"" + n + "\")) " + a + b + ")",
						"(apply (eval (str2sym \"" + n + "\")) [" + a + b + "])",
						"(eval (cons (quote " + n + ") (list " + a + b + ")))",
						"(def " + n + "2 (fn [& r] (apply " + n + " r))) (" + n + "2 " + a + b + ")",
						"(let [f " + n + "] (f " + a + b + "))",
						"(map (fn [x] (" + n + " x" + b + ")) [" + a + "])",
					} {
						r := c08eval(env, src)
						c.Count("dynamic_calls", 1)
						c.Evals++
						viol := func(clause, detail string) {
							c.Violation(clause, fmt.Sprintf("C08/dyn-%s/%s/%s/route%d", clause, config, n, ri), w, detail+"\n  script: "+src)
						}
						if r.timeout {
							env = c08newEnv(config)
							continue
						}
						if b := k.breach(); b != "" {
							viol("outside-world-changed", b)
							k.restore()
						}
						if x := c08leak(r.val); x != "" {
							viol("leak-value", "the returned value contains "+x)
						}
						if _, bound := env.VerifGlobal("CANARYMARK"); bound {
							viol("file-executed", "the canary source file was evaluated")
							env = c08newEnv(config)
						}
					}
				}
			}
			env.Close()
			c.Outcome(w)
		}
	}
}

// c08shadow: the script itself binds the names of the outside-world primitives (as values, functions and macros),
// then reaches for the outside world in later evaluations. Whatever the sandbox decides must not depend on what
// names the script has bound.
func c08shadow(c *engine.Ctx, k *c08canary, only string) {
	var names []string
	for n := range zygo.SystemFunctions() {
		names = append(names, n)
	}
	names = append(names, "sys", "import", "include", "req", "sandboxed", "sandbox")
	sort.Strings(names)
	m := k.menu()
	attempts := []string{
		"(include " + m[0] + ")", "(eval (quote (include " + m[0] + ")))", "(defmac mi08 [] ^(include " + m[0] + ")) (mi08)", "(defmac mj08 [] (eval (quote (include " + m[0] + ")))) (mj08)",
		"(import " + m[5] + ")", "(req " + strings.Trim(m[0], `"`) + ")", "(sys " + m[3] + ")", "(source " + m[0] + ")", "(system " + m[3] + ")", "(slurpf " + m[1] + ")", "(getenv " + m[4] + ")",
		"(writef " + m[2] + " \"x\")", "(expectError \"zz\" (include " + m[0] + "))",
	}
	for _, config := range []string{"sandbox", "sandbox+std"} {
		for _, n := range names {
			for di, def := range []string{"(def " + n + " 0)", "(defn " + n + " [& a] 0)", "(def " + n + " (fn [& a] 0))", "(defmac " + n + " [& a] 0)", "(def " + n + " true)"} {
				w := fmt.Sprintf("SHADOW|%s|%s|%d", config, n, di)
				if only != "" && only != w {
					continue
				}
				if only == "" && !c.Mine() {
					continue
				}
				c.Begin(w)
				env := c08newEnv(config)
				c08eval(env, def) // may be refused (reserved word, builtin): that is fine
				for _, src := range attempts {
					r := c08eval(env, src)
					c.Count("shadow_calls", 1)
					c.Evals++
					viol := func(clause, detail string) {
						c.Violation(clause, fmt.Sprintf("C08/shadow-%s/%s/%s", clause, config, n), w, detail+"\n  after "+def+": "+src)
					}
					if r.timeout {
						env = c08newEnv(config)
						c08eval(env, def)
						continue
					}
					if b := k.breach(); b != "" {
						viol("outside-world-changed", b)
						k.restore()
					}
					if x := c08leak(r.val); x != "" {
						viol("leak-value", "the returned value contains "+x)
					}
					if _, bound := env.VerifGlobal("CANARYMARK"); bound {
						viol("file-executed", "the canary source file was evaluated")
						env = c08newEnv(config)
						c08eval(env, def)
					}
					if _, bound := env.VerifGlobal("cpk"); bound {
						viol("file-executed", "the canary package file was imported")
						env = c08newEnv(config)
						c08eval(env, def)
					}
				}
				env.Close()
				c.Outcome(w)
			}
		}
	}
}

// c08history: what an earlier sandboxed interpreter of the same process evaluated (declarations under the names of
// the withheld primitives go into process-wide tables) must not widen what a later sandboxed interpreter offers.
func c08history(c *engine.Ctx, k *c08canary, only string) {
	var names []string
	for n := range zygo.SystemFunctions() {
		names = append(names, n)
	}
	names = append(names, "sys", "import", "include", "req")
	sort.Strings(names)
	m := k.menu()
	attempts := []string{
		"(sys " + m[3] + ")", "(import " + m[5] + ")", "(include " + m[0] + ")", "(source " + m[0] + ")", "(system " + m[3] + ")", "(slurpf " + m[1] + ")", "(getenv " + m[4] + ")",
		"(writef " + m[2] + " \"x\")", "(req " + strings.Trim(m[0], `"`) + ")", "(eval (quote (sys " + m[3] + ")))", "(defmac mh08 [] ^(import " + m[5] + ")) (mh08)",
	}
	c01registryReset() // remember the registry of a process in which no script has run yet
	for _, n := range names {
		for di, decl := range []string{"(struct " + n + " [])", "(defmap " + n + ")", "(def " + n + " 1)", "(defn " + n + " [& a] 1)", "(struct " + n + " [(field X: int64 e:0)]) (def v08 (" + n + " X:1))"} {
			w := fmt.Sprintf("HIST|%s|%d", n, di)
			if !(only == "" && c.Mine() || only == w) {
				continue
			}
			c.Begin(w)
			first := c08newEnv("sandbox+std")
			c08eval(first, decl) // may be refused: fine
			env := c08newEnv("sandbox+std")
			for _, src := range attempts {
				r := c08eval(env, src)
				c.Count("history_calls", 1)
				c.Evals++
				viol := func(clause, detail string) {
					c.Violation(clause, fmt.Sprintf("C08/history-%s/%s", clause, n), w, detail+"\n  an earlier sandboxed interpreter evaluated "+decl+"; a fresh one then: "+src)
				}
				if r.timeout {
					env = c08newEnv("sandbox+std")
					continue
				}
				if b := k.breach(); b != "" {
					viol("outside-world-changed", b)
					k.restore()
				}
				if x := c08leak(r.val); x != "" {
					viol("leak-value", "the returned value contains "+x)
				}
				if _, bound := env.VerifGlobal("CANARYMARK"); bound {
					viol("file-executed", "the canary source file was evaluated")
					env = c08newEnv("sandbox+std")
				}
				if _, bound := env.VerifGlobal("cpk"); bound {
					viol("file-executed", "the canary package file was imported")
					env = c08newEnv("sandbox+std")
				}
			}
			env.Close()
			first.Close()
			c01registryReset()
			c.Outcome(w)
		}
	}
}

// c08alias: every function the sandbox does offer, bound by the script under the name of an outside-world primitive,
// and then called by that name, through the quoted symbol, and through apply. What a function may do must not depend
// on the name it is called by.
func c08alias(c *engine.Ctx, k *c08canary, only string) {
	var withheld []string
	for n := range zygo.SystemFunctions() {
		withheld = append(withheld, n)
	}
	sort.Strings(withheld)
	m := k.menu()
	vectors := []string{"(hash a:1) " + m[2], m[2], m[2] + " \"x\"", "\"x\" " + m[2], m[1], m[3], m[4], m[0]}
	for _, config := range []string{"sandbox", "sandbox+std"} {
		env := c08newEnv(config)
		var offered []string
		for _, n := range env.VerifGlobalNames() {
			if v, ok := env.VerifGlobal(n); ok {
				if _, isFn := v.(*zygo.SexpFunction); isFn && !strings.ContainsAny(n, "()[]{}\"' `") {
					offered = append(offered, n)
				}
			}
		}
		env.Close()
		for _, f := range offered {
			w := "ALIAS|" + config + "|" + f
			if only != "" && only != w {
				continue
			}
			if only == "" && !c.Mine() {
				continue
			}
			if _, blocks := c08blocking[f]; blocks {
				continue
			}
			c.Begin(w)
			env := c08newEnv(config)
			timeouts := 0
			for _, n := range withheld {
				c08eval(env, "(def "+n+" "+f+")")
				for _, v := range vectors {
					for _, src := range []string{"(" + n + " " + v + ")", "((quote " + n + ") " + v + ")", "(apply " + n + " [" + v + "])", "(apply (quote " + n + ") [" + v + "])"} {
						r := c08eval(env, src)
						c.Count("alias_calls", 1)
						c.Evals++
						if r.timeout {
							timeouts++
							env = c08newEnv(config)
							c08eval(env, "(def "+n+" "+f+")")
							continue
						}
						viol := func(clause, detail string) {
							c.Violation(clause, fmt.Sprintf("C08/alias-%s/%s/%s-as-%s", clause, config, f, n), w, detail+"\n  after (def "+n+" "+f+"): "+src)
						}
						if b := k.breach(); b != "" {
							viol("outside-world-changed", b)
							k.restore()
						}
						if x := c08leak(r.val); x != "" {
							viol("leak-value", "the returned value contains "+x)
						}
						if _, bound := env.VerifGlobal("CANARYMARK"); bound {
							viol("file-executed", "the canary source file was evaluated")
							env = c08newEnv(config)
						}
					}
				}
				if timeouts > 3 {
					break
				}
			}
			env.Close()
			c.Outcome(w)
		}
	}
}

func c08all(c *engine.Ctx, only string) {
	k := c08setup()
	defer os.RemoveAll(k.dir)
	maxArgs := 2
	if c.Thorough() {
		maxArgs = 3
	}
	for _, config := range []string{"sandbox", "sandbox+std"} {
		env := c08newEnv(config)
		names := env.VerifGlobalNames()
		env.Close()
		names = append(names, c08special...)
		for _, mn := range []string{"req", "range", "defmap"} {
			names = append(names, mn)
		}
		c.Note("names:"+config, fmt.Sprint(len(names)))
		for _, n := range names {
			if c.Expired() {
				return
			}
			if strings.ContainsAny(n, "()[]{}\"' `") || n == "" {
				continue
			}
			if strings.HasPrefix(only, "DYN|") || strings.HasPrefix(only, "CLI|") || strings.HasPrefix(only, "SHADOW|") || strings.HasPrefix(only, "ALIAS|") || strings.HasPrefix(only, "HIST|") {
				break
			}
			if only != "" && only != config+"|"+n {
				continue
			}
			if only != "" || c.Mine() {
				c08name(c, k, config, n, maxArgs)
			}
		}
	}
	if only == "" || strings.HasPrefix(only, "ALIAS|") {
		c08alias(c, k, only)
	}
	if only == "" || strings.HasPrefix(only, "SHADOW|") {
		c08shadow(c, k, only)
	}
	if only == "" || strings.HasPrefix(only, "DYN|") {
		c08dynamic(c, k, only)
	}
	if only == "" || strings.HasPrefix(only, "HIST|") {
		c08history(c, k, only)
	}
	if only == "" || strings.HasPrefix(only, "CLI|") {
		c08cli(c, k)
	}
}

func init() {
	engine.Register(&engine.Check{
		ID:    "C08",
		Level: "exploration",
		Rule: "configurations {NewZlispSandbox(), sandbox + StandardSetup()} x every name bound in that interpreter (read from the interpreter itself, so an added primitive is seen) + the 24 special forms of the compiler + the setup macros x every argument vector of length 0..2 (thorough 3) over an 9-item canary menu " +
			"(path of a canary source file, of a secret file, of a new file, a shell command writing a file, the name of a canary environment variable, a canary package file, a shell command printing the secret file, 0, a symbol) x call routes {direct, alias, apply, macro, inside a function, eval of a quoted form, infix, eval at macro-expansion time and as expectError operand (both run in a duplicate of the interpreter)}; plus every outside-world primitive of the full interpreter reached for by a name computed at run time (str2sym / eval / apply / cons, 7 routes x 9 x 3 argument vectors); plus, after the script itself has bound each of those names (as value, function, macro), 13 reach attempts in later evaluations; plus every function the sandbox offers bound under each of those names and called by that name / quoted symbol / apply with 8 canary vectors; plus, after an earlier sandboxed interpreter of the same process declared a struct / defmap / value / function under each of those names, 11 reach attempts in a fresh sandboxed interpreter; plus 25 forms through `zygo -c` under 6 flag sets that contain -sandbox (with -demo in both orders, -exitonfail, -no-liner ...); " +
			"after every call: canary directory byte-identical, no new file, canary variable unchanged, no secret in the value or on stdout, the canary source not evaluated, process alive",
		Assumptions:   []string{"effects other than file / process / environment / exit (e.g. network) have no canary", "calls that do not return within 4 s are counted as blocked, not judged"},
		QuickDeadline: 170 * time.Second,
		Run:           func(c *engine.Ctx) { c08all(c, "") },
		Replay: func(c *engine.Ctx, w string) {
			c.NWorkers = 1
			c.Tier = "quick"
			c08all(c, w)
			for i := range c.Viol {
				c.Viol[i].Key = "*"
			}
		},
	})
}
