package props

import (
	"fmt"
	"math"
	"math/big"
	"os"
	"path/filepath"
	"strconv"
	"strings"
	"unicode/utf8"

	"github.com/glycerine/zygomys/v9/zygo"

	"verif/internal/engine"
	"verif/internal/zy"
)

// C12 — printed data reads back as the same data; literals denote their exact value.

// equalData compares two values structurally; numbers by value.
func equalData(a, b zygo.Sexp) bool {
	num := func(x zygo.Sexp) (*big.Float, bool, bool) { // value, isNaN, ok
		switch v := x.(type) {
		case *zygo.SexpInt:
			return new(big.Float).SetInt64(v.Val), false, true
		case *zygo.SexpUint64:
			return new(big.Float).SetUint64(v.Val), false, true
		case *zygo.SexpFloat:
			if math.IsNaN(v.Val) {
				return nil, true, true
			}
			if math.IsInf(v.Val, 0) {
				return new(big.Float).SetInf(v.Val < 0), false, true
			}
			return new(big.Float).SetFloat64(v.Val), false, true
		}
		return nil, false, false
	}
	if av, an, ok := num(a); ok {
		bv, bn, ok2 := num(b)
		if !ok2 {
			return false
		}
		if an || bn {
			return an && bn
		}
		return av.Cmp(bv) == 0
	}
	switch x := a.(type) {
	case *zygo.SexpChar:
		y, ok := b.(*zygo.SexpChar)
		return ok && x.Val == y.Val
	case *zygo.SexpStr:
		y, ok := b.(*zygo.SexpStr)
		return ok && x.S == y.S
	case *zygo.SexpBool:
		y, ok := b.(*zygo.SexpBool)
		return ok && x.Val == y.Val
	case *zygo.SexpSymbol:
		y, ok := b.(*zygo.SexpSymbol)
		return ok && x.Name() == y.Name()
	case *zygo.SexpSentinel:
		return a == b
	case *zygo.SexpRaw:
		y, ok := b.(*zygo.SexpRaw)
		return ok && string(x.Val) == string(y.Val)
	case *zygo.SexpPair:
		y, ok := b.(*zygo.SexpPair)
		return ok && equalData(x.Head, y.Head) && equalData(x.Tail, y.Tail)
	case *zygo.SexpArray:
		y, ok := b.(*zygo.SexpArray)
		if !ok || len(x.Val) != len(y.Val) {
			return false
		}
		for i := range x.Val {
			if !equalData(x.Val[i], y.Val[i]) {
				return false
			}
		}
		return true
	case *zygo.SexpHash:
		y, ok := b.(*zygo.SexpHash)
		if !ok || len(x.KeyOrder) != len(y.KeyOrder) || x.NumKeys != y.NumKeys {
			return false
		}
		for i, k := range x.KeyOrder {
			// a symbol key prints as name: and reads back as a symbol; a string key as "name":
			if !equalData(k, y.KeyOrder[i]) {
				return false
			}
			va, e1 := x.HashGet(nil, k)
			vb, e2 := y.HashGet(nil, y.KeyOrder[i])
			if e1 != nil || e2 != nil || !equalData(va, vb) {
				return false
			}
		}
		return true
	}
	return false
}

func c12ints() []int64 {
	const p53 = int64(1) << 53
	return []int64{math.MinInt64, math.MinInt64 + 1, -p53 - 1, -1000000, -2, -1, 0, 1, 2, 7, 10, 1000, 1 << 31, 1 << 32, p53, p53 + 1, math.MaxInt64 - 1, math.MaxInt64}
}

func c12floats(thorough bool) []float64 {
	fs := []float64{0, math.Copysign(0, -1), 1, -1, 0.5, 2.5, -2.5, 1.0 / 3.0, 0.1 + 0.2, 7.0 / 2.0, 1e21, 1e20, 1e22, 123456789012345678901234.0, 1e-7, 1e-6, 1e-5, 0.000123,
		1e150 * 1e150, 1e-300, math.MaxFloat64, -math.MaxFloat64, 5e-324, 2.2250738585072014e-308, float64(1 << 53), float64(1<<53) + 2, float64(1 << 55), float64(1 << 60), float64(1 << 62), 9223372036854775808.0, -float64(1 << 55), float64(1<<54) + 4, 9007199254740993, 1e15, 1e16, 1e17, 123456.789, 100, 1e2, 3.0,
		math.Inf(1), math.Inf(-1)}
	step := 7
	if thorough {
		step = 1
	}
	for k := -1074; k <= 1023; k += step {
		f := math.Ldexp(1, k)
		fs = append(fs, f, -f, math.Nextafter(f, math.Inf(1)), f*3)
	}
	return fs
}

func c12runes(thorough bool) []rune {
	var rs []rune
	if thorough {
		for r := rune(0); r <= 0x10FFFF; r++ {
			if r >= 0xD800 && r <= 0xDFFF {
				continue
			}
			rs = append(rs, r)
		}
		return rs
	}
	for r := rune(0); r < 0x2100; r++ {
		rs = append(rs, r)
	}
	for r := rune(0x2100); r <= 0x10FFFF; r += 257 { // a regular sample of the rest of the code space
		if r >= 0xD800 && r <= 0xDFFF {
			continue
		}
		rs = append(rs, r)
	}
	rs = append(rs, 0x2028, 0x2029, 0x3b1, 0x416, 0x5d0, 0x4e2d, 0xfeff, 0xfffd, 0xffff, 0x10000, 0x1f600, 0x10ffff, 0x7ff, 0x800, 0xd7ff, 0xe000)
	return rs
}

var c12strPool = []string{`"`, `\`, `/`, "\n", "\t", "\x01", "\x7f", "é", " ", "😀", "{", ":", " ", "a", "#", "'", "`", "\r", "\x00", "~", "%"}

func c12symbols() []string {
	return []string{"a", "abc", "a1", "a_b", "Abc", "x?", "+", "-", "*", "/", "<", "<=", "==", "!=", "**", "mod", "a.b", "$x", "&"}
}

// wrap a value in containers
func c12wraps(env *zygo.Zlisp, v zygo.Sexp) []zygo.Sexp {
	arr := func(xs ...zygo.Sexp) zygo.Sexp { return env.NewSexpArray(xs) }
	return []zygo.Sexp{v, zygo.MakeList([]zygo.Sexp{v}), arr(v), zygo.MakeList([]zygo.Sexp{&zygo.SexpInt{Val: 1}, v, zygo.MakeList([]zygo.Sexp{v, arr(v, v)})}), arr(arr(zygo.MakeList([]zygo.Sexp{v})), v)}
}

// c12build rebuilds a value from its spec (used by replay).
func c12build(env *zygo.Zlisp, spec string) zygo.Sexp {
	i := strings.Index(spec, ":")
	kind, arg := spec[:i], spec[i+1:]
	switch kind {
	case "int":
		v, _ := strconv.ParseInt(arg, 10, 64)
		return &zygo.SexpInt{Val: v}
	case "float":
		b, _ := strconv.ParseUint(arg, 16, 64)
		return &zygo.SexpFloat{Val: math.Float64frombits(b)}
	case "char":
		v, _ := strconv.ParseInt(arg, 10, 64)
		return &zygo.SexpChar{Val: rune(v)}
	case "str":
		u, _ := strconv.Unquote(arg)
		return &zygo.SexpStr{S: u}
	case "sym":
		return env.MakeSymbol(arg)
	case "bool":
		return &zygo.SexpBool{Val: arg == "true"}
	case "nil":
		return zygo.SexpNull
	case "calc":
		return zy.Eval(env, arg).Sexp
	case "hash":
		k, _ := strconv.Atoi(arg)
		return c12hashes(env)[k]
	}
	panic("bad spec " + spec)
}

func c12roundtrip(c *engine.Ctx, env *zygo.Zlisp, v zygo.Sexp, class string, evalToo bool, spec string, wrapIdx int) {
	var printed string
	func() {
		defer func() {
			if r := recover(); r != nil {
				printed = "PANIC:" + fmt.Sprint(r)
			}
		}()
		printed = v.SexpString(nil)
	}()
	w := fmt.Sprintf("V|%s|%d|%v|%s", class, wrapIdx, evalToo, spec)
	c.Begin(w)
	viol := func(clause, detail string) { c.Violation(clause, "C12/"+clause+"/"+class, w, detail) }
	if strings.HasPrefix(printed, "PANIC:") {
		viol("print-panic", printed)
		return
	}
	env.AddGlobal("vv", v)
	r := zy.Eval(env, `(read (str vv))`)
	if class == "hash" {
		// hashes are judged in the eval direction only (their printed form is a constructor expression)
	} else if !r.OK() {
		viol("read-fails", fmt.Sprintf("value prints as %s; (read (str v)) gives %s", clipS(printed, 120), r))
	} else if !equalData(v, r.Sexp) {
		viol("read-differs", fmt.Sprintf("value prints as %s; read back it is %s (%T)", clipS(printed, 120), clipS(r.Val, 120), r.Sexp))
	}
	if evalToo {
		e := zy.Eval(env, `(eval (read (str vv)))`)
		if !e.OK() {
			viol("eval-fails", fmt.Sprintf("value prints as %s; (eval (read (str v))) gives %s", clipS(printed, 120), e))
		} else if !equalData(v, e.Sexp) {
			viol("eval-differs", fmt.Sprintf("value prints as %s; evaluated it is %s (%T)", clipS(printed, 120), clipS(e.Val, 120), e.Sexp))
		}
	}
	c.Outcome(class + "|" + printed)
}

func c12hashes(env *zygo.Zlisp) []zygo.Sexp {
	mk := func(kv ...zygo.Sexp) zygo.Sexp {
		h, err := zygo.MakeHash(kv, "hash", env)
		if err != nil {
			panic(err)
		}
		return h
	}
	str := func(s string) zygo.Sexp { return &zygo.SexpStr{S: s} }
	in := func(i int64) zygo.Sexp { return &zygo.SexpInt{Val: i} }
	hashes := []zygo.Sexp{
		mk(), mk(env.MakeSymbol("a"), in(1)), mk(str("a"), in(1)), mk(env.MakeSymbol("a"), in(1), env.MakeSymbol("b"), str("x")),
		mk(str("k 1"), &zygo.SexpFloat{Val: 2.5}, str("b"), zygo.SexpNull), mk(env.MakeSymbol("a"), env.NewSexpArray([]zygo.Sexp{in(1), str("s"), &zygo.SexpBool{Val: true}})),
		mk(env.MakeSymbol("a"), mk(env.MakeSymbol("b"), mk(str("c"), in(3)))), mk(str("q\"uote"), str("v\\")), mk(str("é"), str("😀")),
		env.NewSexpArray([]zygo.Sexp{mk(env.MakeSymbol("a"), in(1)), mk(str("b"), in(2))}), mk(env.MakeSymbol("f"), &zygo.SexpFloat{Val: 1e21}, env.MakeSymbol("g"), &zygo.SexpFloat{Val: 0.1}),
		// text that would mean something to a formatter
		mk(env.MakeSymbol("a"), str("100%% sure"), env.MakeSymbol("b"), env.NewSexpArray([]zygo.Sexp{in(1), str("x%dy")}), env.MakeSymbol("c"), in(2)), mk(str("%s"), str("%!v(MISSING)"), str("50%"), str("%%")),
	}
	return hashes
}

// ---- literals

type c12lit struct {
	text string
	want func(got zygo.Sexp) (ok bool, wantDesc string)
}

func wantInt(v int64) func(zygo.Sexp) (bool, string) {
	return func(g zygo.Sexp) (bool, string) {
		x, ok := g.(*zygo.SexpInt)
		return ok && x.Val == v, fmt.Sprintf("int64 %d", v)
	}
}
// wantTooBig: a literal without the ULL suffix whose value does not fit int64. It may be rejected; if it is accepted it
// must denote that value (as uint64 or as an exactly equal float), never some other integer.
func wantTooBig(v uint64) func(zygo.Sexp) (bool, string) {
	return func(g zygo.Sexp) (bool, string) {
		desc := fmt.Sprintf("too large for int64 (%d): rejected, or exactly that value", v)
		switch x := g.(type) {
		case *zygo.SexpUint64:
			return x.Val == v, desc
		case *zygo.SexpFloat:
			return x.Val == float64(v) && uint64(x.Val) == v, desc
		}
		return false, desc
	}
}
func wantUint(v uint64) func(zygo.Sexp) (bool, string) {
	return func(g zygo.Sexp) (bool, string) {
		x, ok := g.(*zygo.SexpUint64)
		return ok && x.Val == v, fmt.Sprintf("uint64 %d", v)
	}
}
func wantFloat(v float64) func(zygo.Sexp) (bool, string) {
	return func(g zygo.Sexp) (bool, string) {
		x, ok := g.(*zygo.SexpFloat)
		return ok && (x.Val == v || (math.IsNaN(v) && math.IsNaN(x.Val))) && math.Signbit(x.Val) == math.Signbit(v), fmt.Sprintf("float64 %v", v)
	}
}
func wantChar(v rune) func(zygo.Sexp) (bool, string) {
	return func(g zygo.Sexp) (bool, string) {
		x, ok := g.(*zygo.SexpChar)
		return ok && x.Val == v, fmt.Sprintf("char %q (U+%04X)", v, v)
	}
}
func wantStr(v string) func(zygo.Sexp) (bool, string) {
	return func(g zygo.Sexp) (bool, string) {
		x, ok := g.(*zygo.SexpStr)
		return ok && x.S == v, fmt.Sprintf("string %q", v)
	}
}

func c12literals(thorough bool) []c12lit {
	var ls []c12lit
	digs := []string{"0", "1", "7", "9", "10", "42", "007", "010", "08", "009", "00", "017", "0_100", "1_000", "9_9", "1__0", "123456", "9223372036854775807"}
	for _, d := range digs {
		v, _ := strconv.ParseInt(strings.ReplaceAll(d, "_", ""), 10, 64)
		ls = append(ls, c12lit{d, wantInt(v)}, c12lit{"-" + d, wantInt(-v)})
		u, _ := strconv.ParseUint(strings.ReplaceAll(d, "_", ""), 10, 64)
		if !strings.Contains(d, "_") {
			ls = append(ls, c12lit{d + "ULL", wantUint(u)})
		}
	}
	ls = append(ls, c12lit{"-9223372036854775808", wantInt(math.MinInt64)}, c12lit{"18446744073709551615ULL", wantUint(math.MaxUint64)})
	for _, h := range []string{"0", "1", "F", "f", "1F", "ff", "7fff", "DEADBEEF", "7fffffffffffffff"} {
		v, _ := strconv.ParseInt(h, 16, 64)
		ls = append(ls, c12lit{"0x" + h, wantInt(v)})
		u, _ := strconv.ParseUint(h, 16, 64)
		ls = append(ls, c12lit{"0x" + h + "ULL", wantUint(u)})
	}
	ls = append(ls, c12lit{"0xffffffffffffffffULL", wantUint(math.MaxUint64)})
	// one past the largest int64, and the largest uint64, in every radix, without the ULL suffix
	for _, v := range []uint64{1 << 63, 1<<63 + 1, math.MaxUint64} {
		ls = append(ls, c12lit{"0x" + strconv.FormatUint(v, 16), wantTooBig(v)}, c12lit{"0x" + strings.ToUpper(strconv.FormatUint(v, 16)), wantTooBig(v)},
			c12lit{"0o" + strconv.FormatUint(v, 8), wantTooBig(v)}, c12lit{"0b" + strconv.FormatUint(v, 2), wantTooBig(v)}, c12lit{strconv.FormatUint(v, 10), wantTooBig(v)})
	}
	ls = append(ls, c12lit{"0o777777777777777777777", wantInt(math.MaxInt64)}, c12lit{"0b" + strings.Repeat("1", 63), wantInt(math.MaxInt64)})
	for _, o := range []string{"0", "7", "17", "777", "1234567"} {
		v, _ := strconv.ParseInt(o, 8, 64)
		ls = append(ls, c12lit{"0o" + o, wantInt(v)}, c12lit{"0o" + o + "ULL", wantUint(uint64(v))})
	}
	for _, b := range []string{"0", "1", "101", "1111", "10000000"} {
		v, _ := strconv.ParseInt(b, 2, 64)
		ls = append(ls, c12lit{"0b" + b, wantInt(v)})
	}
	ints := []string{"0", "1", "7", "10", "42", "1_0"}
	fracs := []string{"", "0", "5", "25", "001", "125"}
	exps := []string{"", "e3", "E3", "e-3", "e+3", "e0", "e10", "E-10"}
	for _, sg := range []string{"", "-"} {
		for _, ip := range ints {
			for _, fr := range fracs {
				for _, ex := range exps {
					if fr == "" && ex == "" {
						continue // an integer
					}
					txt := sg + ip
					if fr != "" || ex == "" {
						txt += "." + fr
					}
					txt += ex
					bf, _, err := big.ParseFloat(strings.ReplaceAll(txt, "_", ""), 10, 200, big.ToNearestEven)
					if err != nil {
						continue
					}
					f, _ := bf.Float64()
					if sg == "-" && f == 0 {
						f = math.Copysign(0, -1)
					}
					ls = append(ls, c12lit{txt, wantFloat(f)})
				}
			}
		}
		for _, fr := range []string{"5", "25", "001"} {
			f, _ := strconv.ParseFloat(sg+"0."+fr, 64)
			ls = append(ls, c12lit{sg + "." + fr, wantFloat(f)})
		}
	}
	ls = append(ls, c12lit{"Inf", wantFloat(math.Inf(1))}, c12lit{"-Inf", wantFloat(math.Inf(-1))}, c12lit{"+Inf", wantFloat(math.Inf(1))}, c12lit{"NaN", wantFloat(math.NaN())},
		c12lit{"1e308", wantFloat(1e308)}, c12lit{"5e-324", wantFloat(5e-324)}, c12lit{"0.1", wantFloat(0.1)}, c12lit{"2.2250738585072014e-308", wantFloat(2.2250738585072014e-308)})
	// character and string literals: exactly the runes written
	for _, r := range c12runes(thorough) {
		if r == '\'' || r == '\\' || r == '\n' || !utf8.ValidRune(r) {
			continue
		}
		ls = append(ls, c12lit{"'" + string(r) + "'", wantChar(r)})
		if r != '"' {
			ls = append(ls, c12lit{`"` + string(r) + `"`, wantStr(string(r))}, c12lit{`"a` + string(r) + `b"`, wantStr("a" + string(r) + "b")})
		}
	}
	esc := map[string]rune{`\n`: '\n', `\r`: '\r', `\a`: '\a', `\t`: '\t', `\\`: '\\', `\"`: '"', `\'`: '\'', `\#`: '#'}
	for e, r := range esc {
		ls = append(ls, c12lit{"'" + e + "'", wantChar(r)}, c12lit{`"` + e + `"`, wantStr(string(r))}, c12lit{`"x` + e + `y` + e + `"`, wantStr("x" + string(r) + "y" + string(r))})
	}
	return ls
}

func c12literal(c *engine.Ctx, env *zygo.Zlisp, l c12lit) {
	w := "L|" + l.text
	c.Begin(w)
	cls := "other"
	switch {
	case strings.HasPrefix(l.text, "'"):
		cls = "char"
	case strings.HasPrefix(l.text, `"`):
		cls = "string"
	case strings.HasSuffix(l.text, "ULL"):
		cls = "uint64"
	case strings.Contains(l.text, "0x") || strings.Contains(l.text, "0o") || strings.Contains(l.text, "0b"):
		cls = "based-int"
	case strings.ContainsAny(l.text, ".eEIN"):
		cls = "float"
	default:
		cls = "decimal"
	}
	viol := func(clause, detail string) { c.Violation(clause, "C12/"+clause+"/"+cls, w, detail) }
	for _, term := range []string{"", " "} {
		r := zy.Eval(env, "(quote "+l.text+term+")")
		_, desc := l.want(nil)
		if r.Panic != "" {
			viol("literal-panic", r.Panic)
			return
		}
		if !r.OK() && strings.HasPrefix(desc, "too large") {
			continue
		}
		if !r.OK() {
			viol("literal-rejected", fmt.Sprintf("literal %s is rejected: %s; it denotes %s", l.text, r, desc))
			return
		}
		if ok, _ := l.want(r.Sexp); !ok {
			viol("literal-value", fmt.Sprintf("literal %s denotes %s but reads as %s (%T)", l.text, desc, r.Val, r.Sexp))
			return
		}
	}
	c.Outcome("L|" + cls + "|" + l.text)
}

// c12files: data saved as text can be sourced again — also when the file already held something longer
func c12files(c *engine.Ctx, env *zygo.Zlisp, only string) {
	hs := c12hashes(env)
	path := filepath.Join(os.TempDir(), fmt.Sprintf("c12-%d.zy", os.Getpid()))
	defer os.Remove(path)
	for i, big := range hs {
		for j, small := range hs {
			w := fmt.Sprintf("F|%d|%d", i, j)
			if !(only == "" && c.Mine() || only == w) {
				continue
			}
			if _, isHash := small.(*zygo.SexpHash); !isHash {
				continue // owritef writes the elements of an array one per line: only a hash is one datum in the file
			}
			if _, isHash := big.(*zygo.SexpHash); !isHash {
				continue
			}
			c.Begin(w)
			os.Remove(path)
			env.AddGlobal("fbig", big)
			env.AddGlobal("fsmall", small)
			env.AddGlobal("fpath", &zygo.SexpStr{S: path})
			zy.Eval(env, `(owritef fbig fpath)`)
			zy.Eval(env, `(owritef fsmall fpath)`)
			r := zy.Eval(env, `(source fpath)`)
			viol := func(clause, detail string) { c.Violation(clause, "C12/"+clause+"/file", w, detail) }
			switch {
			case r.Panic != "":
				viol("print-panic", r.Panic)
			case !r.OK():
				viol("source-fails", fmt.Sprintf("after (owritef %s f) then (owritef %s f), (source f) fails: %s", clipS(big.SexpString(nil), 80), clipS(small.SexpString(nil), 80), r))
			case !equalData(small, r.Sexp):
				viol("source-differs", fmt.Sprintf("(owritef %s f) then (source f) gives %s", clipS(small.SexpString(nil), 80), clipS(r.Val, 80)))
			}
			// the same datum through save (which refuses to overwrite: the file is removed first)
			if i == j {
				os.Remove(path)
				sv := zy.Eval(env, `(save fsmall fpath)`)
				r2 := zy.Eval(env, `(source fpath)`)
				switch {
				case sv.Panic != "" || r2.Panic != "":
					viol("print-panic", sv.Panic+r2.Panic)
				case sv.OK() && !r2.OK():
					viol("source-fails", fmt.Sprintf("after (save %s f), (source f) fails: %s", clipS(small.SexpString(nil), 80), r2))
				case sv.OK() && !equalData(small, r2.Sexp):
					viol("source-differs", fmt.Sprintf("(save %s f) then (source f) gives %s", clipS(small.SexpString(nil), 80), clipS(r2.Val, 80)))
				}
			}
			c.Outcome(w)
		}
	}
}

func c12run(c *engine.Ctx, only string) {
	thorough := c.Thorough()
	env := zy.New(true)
	defer env.Close()
	every := func(v zygo.Sexp, class string, jsonLike bool, spec string) {
		for wi, wv := range c12wraps(env, v) {
			if c.Expired() {
				return
			}
			if !c.Mine() {
				continue
			}
			// the eval direction is for JSON-like values: bare atoms and arrays (lists evaluate as calls)
			ev := jsonLike && (wi == 0 || wi == 2)
			c12roundtrip(c, env, wv, class, ev, spec, wi)
		}
	}
	for _, i := range c12ints() {
		every(&zygo.SexpInt{Val: i}, "int", true, fmt.Sprintf("int:%d", i))
	}
	for _, f := range c12floats(thorough) {
		every(&zygo.SexpFloat{Val: f}, "float", !math.IsInf(f, 0), fmt.Sprintf("float:%x", math.Float64bits(f)))
	}
	// floats produced by arithmetic in the interpreter itself
	for _, src := range []string{`(/ 1 3)`, `(* 1e150 1e150)`, `(+ 0.1 0.2)`, `(/ 7 2)`, `(* 1e10 1e11)`, `(/ 1 1e7)`, `(* 2.5 4)`, `(- 0.3 0.1)`, `(/ 22 7)`, `(* 1e200 1e200)`, `(/ 1 1e300)`, `(+ 1e21 1)`} {
		r := zy.Eval(env, src)
		if r.OK() {
			every(r.Sexp, "float-computed", true, "calc:"+src)
		}
	}
	// one object reached twice inside one printed value (the printer's cycle guard must not mistake sharing for a cycle)
	for _, x := range []string{"[]", "[1]", `"s"`, "(list 1)", "[[]]", "(list)", "[[] []]"} {
		for _, shape := range []string{"[e 1 e]", "(list e e)", "[[e] e]", "[e [e 2] e]", "(list [e] (list e))"} {
			src := "(let [e " + x + "] " + shape + ")"
			if r := zy.Eval(env, src); r.OK() {
				// lists evaluate as calls: only list-free values are also judged in the eval direction
				every(r.Sexp, "shared", !strings.Contains(src, "(list"), "calc:"+src)
			}
		}
		src := "(let [e " + x + "] (hash a: e b: e c: [e]))"
		if strings.Contains(x, "(list") {
			continue
		}
		if r := zy.Eval(env, src); r.OK() && c.Mine() {
			c12roundtrip(c, env, r.Sexp, "hash", true, "calc:"+src, -1)
		}
	}
	// strings computed by builtins from raw (backtick) literals and ordinary ones
	for _, raw := range []string{"`run: `", "`a\"b`", "`x\\y`", "``"} {
		for _, piece := range c12strPool {
			q := strconv.Quote(piece)
			for _, src := range []string{"(concat " + raw + " " + q + ")", "(concat " + q + " " + raw + ")", "(concat " + raw + " " + q + " " + raw + ")", "(str (concat " + raw + " " + q + "))"} {
				if r := zy.Eval(env, src); r.OK() {
					every(r.Sexp, "string-computed", true, "calc:"+src)
				}
			}
		}
	}
	every(&zygo.SexpBool{Val: true}, "bool", true, "bool:true")
	every(&zygo.SexpBool{Val: false}, "bool", true, "bool:false")
	every(zygo.SexpNull, "nil", true, "nil:")
	for _, r := range c12runes(thorough) {
		every(&zygo.SexpChar{Val: r}, "char", false, fmt.Sprintf("char:%d", r))
		every(&zygo.SexpStr{S: string(r)}, "string1", true, "str:"+strconv.Quote(string(r)))
	}
	for _, a := range c12strPool {
		for _, b := range c12strPool {
			every(&zygo.SexpStr{S: a + b}, "string2", true, "str:"+strconv.Quote(a+b))
			if thorough {
				for _, d := range c12strPool {
					every(&zygo.SexpStr{S: a + b + d}, "string3", true, "str:"+strconv.Quote(a+b+d))
				}
			}
		}
	}
	for _, s := range c12symbols() {
		every(env.MakeSymbol(s), "symbol", false, "sym:"+s)
	}
	// a sign symbol directly followed by a number inside a list or array
	for _, sign := range []string{"-", "+"} {
		for _, num := range []string{"(* 2.0 1e308)", "(* -2.0 1e308)", "1", "-1", "2.5", "-2.5", "1e21", "0"} {
			for _, shape := range []string{"(list (quote %s) %s)", "[(quote %s) %s]", "(list 1 (quote %s) %s 2)"} {
				src := fmt.Sprintf(shape, sign, num)
				if r := zy.Eval(env, src); r.OK() && c.Mine() {
					c12roundtrip(c, env, r.Sexp, "sign-then-number", false, "calc:"+src, 0)
				}
			}
		}
	}
	c12files(c, env, "")
	hashes := c12hashes(env)
	for hi, h := range hashes {
		if c.Mine() {
			c12roundtrip(c, env, h, "hash", true, fmt.Sprintf("hash:%d", hi), -1)
		}
	}
	for _, l := range c12literals(thorough) {
		if c.Expired() {
			return
		}
		if c.Mine() {
			c12literal(c, env, l)
		}
	}
}

func init() {
	engine.Register(&engine.Check{
		ID:    "C12",
		Level: "exploration",
		Rule: "values: 18 boundary ints, ~1300 floats (grid, every 7th power of two over the whole exponent range with neighbours [thorough: all 2098], values computed by the interpreter's own arithmetic), bools, nil, chars and 1-char strings over U+0000..U+20FF + every 257th scalar above + representatives [thorough: all 1,112,064 Unicode scalars], " +
			"all 2-char strings over a 21-char adversarial pool [thorough: 3-char], strings computed by concat from raw (backtick) and quoted literals, one object shared twice inside a value (7 objects x 6 shapes), 22 symbols, a sign symbol followed by a number in lists/arrays, 11 JSON-like hashes (also written with owritef over a longer file and sourced again); each bare, in a list, in an array and nested to depth 3; (read (str v)) must equal v structurally (numbers by value) and for JSON-like values (eval (read (str v))) too. " +
			"literals: ~700 numeric spellings (decimal with _, 0x 0o 0b, ULL, fraction, exponent, sign, Inf, NaN) against strconv/math/big, and char/string literals for every rune of the set and every escape; each with and without a terminating blank",
		Assumptions: []string{"equality is structural with numbers compared by value (an integral float may read back as an integer)", "the printed form of +-Inf is only required to read back, not to evaluate"},
		Run:         func(c *engine.Ctx) { c12run(c, "") },
		Replay: func(c *engine.Ctx, w string) {
			env := zy.New(true)
			defer env.Close()
			if strings.HasPrefix(w, "F|") {
				c.NWorkers = 1
				c12files(c, env, w)
				for i := range c.Viol {
					c.Viol[i].Key = "*"
				}
				return
			}
			if strings.HasPrefix(w, "L|") {
				text := w[2:]
				for _, thorough := range []bool{false, true} {
					for _, l := range c12literals(thorough) {
						if l.text == text {
							c12literal(c, env, l)
							for i := range c.Viol {
								c.Viol[i].Key = "*"
							}
							return
						}
					}
				}
				return
			}
			parts := strings.SplitN(w, "|", 5)
			var wi int
			fmt.Sscan(parts[2], &wi)
			v := c12build(env, parts[4])
			if wi >= 0 {
				v = c12wraps(env, v)[wi]
			}
			c12roundtrip(c, env, v, parts[1], parts[3] == "true", parts[4], wi)
			for i := range c.Viol {
				c.Viol[i].Key = "*"
			}
		},
	})
}
