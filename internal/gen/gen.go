// Package gen enumerates program trees: one-hole/two-hole contexts over leaf
// pools, full trees to a depth and chains of contexts to a length, always in
// a fixed simplest-first order.
package gen

import (
	. "verif/internal/ref"
)

// Ctx is a program context with Holes holes.
type Ctx struct {
	Name  string
	Holes int
	Build func(h []*T) *T
}

// Hole placeholder for trace ids: (t ?id v) is written with TID.
const TID = -7777

// T1 is a traced operand: logs a fresh id, returns v.
func T1(v *T) *T { return Call("t", Int(TID), v) }
func H1(v *T) *T { return Call("h", Int(TID), v) }

// Renumber returns a copy of the tree in which every TID placeholder is
// replaced by 1,2,3,... in text order.
func Renumber(t *T) *T {
	n := int64(0)
	var walk func(t *T) *T
	walk = func(t *T) *T {
		if t.K == 'i' && t.I == TID {
			n++
			return Int(n)
		}
		if len(t.L) == 0 {
			return t
		}
		c := &T{K: t.K, S: t.S, I: t.I, L: make([]*T, len(t.L))}
		for i, x := range t.L {
			c.L[i] = walk(x)
		}
		return c
	}
	return walk(t)
}

// EnumFull calls f for every tree of depth <= d: depth 0 = leaves; depth k =
// a context whose holes hold trees of depth <= k-1 (at least one of depth k-1).
// It stops early when f returns false.
func EnumFull(ctxs []Ctx, leaves []*T, d int, f func(*T) bool) bool {
	levels := make([][]*T, d+1)
	levels[0] = leaves
	for _, l := range leaves {
		if !f(l) {
			return false
		}
	}
	for k := 1; k <= d; k++ {
		var below []*T
		for j := 0; j < k; j++ {
			below = append(below, levels[j]...)
		}
		nPrev := len(below) - len(levels[k-1]) // trees of depth < k-1
		for _, c := range ctxs {
			idx := make([]int, c.Holes)
			for {
				// require at least one hole of depth exactly k-1
				ok := false
				for _, i := range idx {
					if i >= nPrev {
						ok = true
					}
				}
				if ok {
					h := make([]*T, c.Holes)
					for i, j := range idx {
						h[i] = below[j]
					}
					t := c.Build(h)
					if k < d {
						levels[k] = append(levels[k], t)
					}
					if !f(t) {
						return false
					}
				}
				// next index vector
				p := c.Holes - 1
				for p >= 0 {
					idx[p]++
					if idx[p] < len(below) {
						break
					}
					idx[p] = 0
					p--
				}
				if p < 0 {
					break
				}
			}
		}
	}
	return true
}

// EnumChains calls f for every chain C1[C2[...Ck[leaf]]] of length exactly
// k: at each level every context, every choice of which hole carries the
// chain, and every assignment of siblings (from sib) to the other holes.
func EnumChains(ctxs []Ctx, leaves []*T, sib []*T, k int, f func(*T) bool) bool {
	var rec func(level int, wrap func(*T) *T) bool
	rec = func(level int, wrap func(*T) *T) bool {
		if level == k {
			for _, l := range leaves {
				if !f(wrap(l)) {
					return false
				}
			}
			return true
		}
		for _, c := range ctxs {
			c := c
			for hole := 0; hole < c.Holes; hole++ {
				nsib := c.Holes - 1
				idx := make([]int, nsib)
				for {
					hole, idxc := hole, append([]int(nil), idx...)
					w := func(inner *T) *T {
						h := make([]*T, c.Holes)
						j := 0
						for i := range h {
							if i == hole {
								h[i] = inner
							} else {
								h[i] = sib[idxc[j]]
								j++
							}
						}
						return wrap(c.Build(h))
					}
					if !rec(level+1, w) {
						return false
					}
					p := nsib - 1
					for p >= 0 {
						idx[p]++
						if idx[p] < len(sib) {
							break
						}
						idx[p] = 0
						p--
					}
					if p < 0 {
						break
					}
				}
			}
		}
		return true
	}
	return rec(0, func(t *T) *T { return t })
}
