// Package explore holds the two generic explorers: breadth-first search
// over operation histories with replay (a state is the history reaching it;
// real objects are rebuilt, never cloned) and deviation-bounded DFS over
// environment answers.
package explore

import (
	"verif/internal/engine"
)

// BFS explores all histories over ops 0..NOps-1 up to Depth, pruning a
// history whose canonical state key was already reached by an earlier
// (shorter or equal, lexicographically smaller) history.
//
// Step(history, record) must build a fresh object, apply the whole history,
// check the invariant after the last operation (reporting through the
// engine when record is true) and return the canonical key of the state.
// A key must contain everything the future behaviour depends on.
// ok=false prunes the history without recording a state (op not enabled).
type BFS struct {
	NOps       int
	Depth      int
	ShardLevel int // histories up to this length are explored by every worker
	Step       func(history []int, record bool) (key string, ok bool)
	Enabled    func(history []int, op int) bool // optional
}

func (b *BFS) Run(c *engine.Ctx) {
	type node struct{ h []int }
	seen := map[string]bool{}
	frontier := []node{{nil}}
	if k, ok := b.Step(nil, c.Worker == 0); ok {
		seen[k] = true
		if c.Worker == 0 {
			c.SetAdd("states", k)
		}
	}
	maxDepth := 0
	for depth := 1; depth <= b.Depth; depth++ {
		var next []node
		shared := depth <= b.ShardLevel
		for i, nd := range frontier {
			// after the shard level each worker owns a share of the frontier
			if depth == b.ShardLevel+1 && !c.MineIdx(int64(i)) {
				continue
			}
			for op := 0; op < b.NOps; op++ {
				if c.Expired() {
					c.Note("bfs_cap", "deadline hit during BFS; deeper levels incomplete")
					goto done
				}
				if b.Enabled != nil && !b.Enabled(nd.h, op) {
					continue
				}
				h := append(append(make([]int, 0, len(nd.h)+1), nd.h...), op)
				record := !shared || c.Worker == 0
				k, ok := b.Step(h, record)
				if !ok {
					continue
				}
				if record {
					c.Count("transitions", 1)
				}
				if seen[k] {
					continue
				}
				seen[k] = true
				if record {
					c.SetAdd("states", k)
				}
				next = append(next, node{h})
			}
		}
		frontier = next
		maxDepth = depth
		if len(frontier) == 0 {
			break
		}
	}
done:
	c.Max("max_depth", int64(maxDepth))
}
