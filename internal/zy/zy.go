// Package zy wraps the real interpreter for the checks: construction,
// evaluation under recover, value rendering and coarse error classes.
package zy

import (
	"fmt"
	"strings"

	"github.com/glycerine/zygomys/v9/zygo"
)

type Res struct {
	Val    string // rendering of the value (SexpString) when OK
	Sexp   zygo.Sexp
	Err    string // error text, "" if none
	Panic  string // non-empty if a Go panic escaped the library
	NilVal bool   // the call returned a Go-nil Sexp without an error
	Budget bool   // step budget exceeded
}

func (r Res) OK() bool { return r.Err == "" && r.Panic == "" && !r.NilVal }

// Short is a compact rendering used in outcome vectors.
func (r Res) Short() string {
	switch {
	case r.Panic != "":
		return "PANIC"
	case r.Budget:
		return "BUDGET"
	case r.Err != "":
		return "ERR"
	case r.NilVal:
		return "GONIL"
	}
	return r.Val
}

func (r Res) String() string {
	switch {
	case r.Panic != "":
		return "PANIC(" + clip(r.Panic, 300) + ")"
	case r.Err != "":
		return "ERR(" + clip(r.Err, 300) + ")"
	case r.NilVal:
		return "GONIL"
	}
	return r.Val
}

func clip(s string, n int) string {
	if len(s) > n {
		return s[:n] + "…"
	}
	return s
}

func New(std bool) *zygo.Zlisp {
	env := zygo.NewZlisp()
	if std {
		env.StandardSetup()
	}
	return env
}

// Render prints a value the way the REPL does.
func Render(env *zygo.Zlisp, v zygo.Sexp) (s string, pan string) {
	defer func() {
		if r := recover(); r != nil {
			pan = fmt.Sprint(r)
		}
	}()
	if sel, ok := v.(zygo.Selector); ok {
		rhs, err := sel.RHS(env)
		if err != nil {
			return "SELECTOR-ERR", ""
		}
		v = rhs
	}
	return v.SexpString(nil), ""
}

// Eval evaluates src (a newline is appended: see DESIGN §6a) and never lets
// a panic escape.
func Eval(env *zygo.Zlisp, src string) (res Res) {
	defer func() {
		if r := recover(); r != nil {
			res = Res{Panic: fmt.Sprint(r)}
		}
	}()
	v, err := env.EvalString(src + "\n")
	if err != nil {
		if _, ok := err.(*zygo.VerifBudgetExceeded); ok || strings.Contains(err.Error(), "verif: step budget exceeded") {
			env.Clear()
			return Res{Err: err.Error(), Budget: true}
		}
		env.Clear()
		return Res{Err: err.Error()}
	}
	if v == nil {
		return Res{NilVal: true}
	}
	s, pan := Render(env, v)
	if pan != "" {
		return Res{Panic: "printing result: " + pan}
	}
	return Res{Val: s, Sexp: v}
}

// EvalNoClear is Eval without the env.Clear() the REPL performs after an
// error; used where the property is about what the failure leaves behind.
func EvalNoClear(env *zygo.Zlisp, src string) (res Res) {
	defer func() {
		if r := recover(); r != nil {
			res = Res{Panic: fmt.Sprint(r)}
		}
	}()
	v, err := env.EvalString(src + "\n")
	if err != nil {
		b := strings.Contains(err.Error(), "verif: step budget exceeded")
		return Res{Err: err.Error(), Budget: b}
	}
	if v == nil {
		return Res{NilVal: true}
	}
	s, pan := Render(env, v)
	if pan != "" {
		return Res{Panic: "printing result: " + pan}
	}
	return Res{Val: s, Sexp: v}
}
