// Package zy wraps the real interpreter for the checks: construction,
// evaluation under recover, value rendering and coarse error classes.
package zy

import (
	"fmt"
	"strings"

	"github.com/glycerine/zygomys/v9/zygo"
)

type Res struct {
	Val    string // rendering of the value (SexpString) when OK
	Sexp   zygo.Sexp
	Err    string // error text, "" if none
	Panic  string // non-empty if a Go panic escaped the library
	NilVal bool   // the call returned a Go-nil Sexp without an error
	Budget bool   // step budget exceeded
}

func (r Res) OK() bool { return r.Err == "" && r.Panic == "" && !r.NilVal }

// Short is a compact rendering used in outcome vectors.
func (r Res) Short() string {
	switch {
	case r.Panic != "":
		return "PANIC"
	case r.Budget:
		return "BUDGET"
	case r.Err != "":
		return "ERR"
	case r.NilVal:
		return "GONIL"
	}
	return r.Val
}

func (r Res) String() string {
	switch {
	case r.Panic != "":
		return "PANIC(" + clip(r.Panic, 300) + ")"
	case r.Err != "":
		return "ERR(" + clip(r.Err, 300) + ")"
	case r.NilVal:
		return "GONIL"
	}
	return r.Val
}

func clip(s string, n int) string {
	if len(s) > n {
		return s[:n] + "…"
	}
	return s
}

func New(std bool) *zygo.Zlisp {
	zygo.VerifSetStepBudget(0) // construction runs setup scripts: never under a leftover budget
	env := zygo.NewZlisp()
	if std {
		env.StandardSetup()
	}
	return env
}

// Render prints a value the way the REPL does.
func Render(env *zygo.Zlisp, v zygo.Sexp) (s string, pan string) {
	defer func() {
		if r := recover(); r != nil {
			pan = fmt.Sprint(r)
		}
	}()
	if sel, ok := v.(zygo.Selector); ok {
		rhs, err := sel.RHS(env)
		if err != nil {
			return "SELECTOR-ERR", ""
		}
		v = rhs
	}
	return v.SexpString(nil), ""
}

// Eval evaluates src (a newline is appended: see DESIGN §6a) and never lets
// a panic escape.
func Eval(env *zygo.Zlisp, src string) (res Res) {
	defer func() {
		if r := recover(); r != nil {
			res = Res{Panic: fmt.Sprint(r)}
		}
	}()
	v, err := env.EvalString(src + "\n")
	if err != nil {
		if _, ok := err.(*zygo.VerifBudgetExceeded); ok || strings.Contains(err.Error(), "verif: step budget exceeded") {
			env.Clear()
			return Res{Err: err.Error(), Budget: true}
		}
		env.Clear()
		return Res{Err: err.Error()}
	}
	if v == nil {
		return Res{NilVal: true}
	}
	s, pan := Render(env, v)
	if pan != "" {
		return Res{Panic: "printing result: " + pan}
	}
	return Res{Val: s, Sexp: v}
}

// EvalNoClear is Eval without the env.Clear() the REPL performs after an
// error; used where the property is about what the failure leaves behind.
func EvalNoClear(env *zygo.Zlisp, src string) (res Res) {
	defer func() {
		if r := recover(); r != nil {
			res = Res{Panic: fmt.Sprint(r)}
		}
	}()
	v, err := env.EvalString(src + "\n")
	if err != nil {
		b := strings.Contains(err.Error(), "verif: step budget exceeded")
		return Res{Err: err.Error(), Budget: b}
	}
	if v == nil {
		return Res{NilVal: true}
	}
	s, pan := Render(env, v)
	if pan != "" {
		return Res{Panic: "printing result: " + pan}
	}
	return Res{Val: s, Sexp: v}
}

// Canon renders a value for comparison with the reference evaluator:
// functions print as <fn>, everything else as the library prints it.
func Canon(v zygo.Sexp) string { return canon(v, map[zygo.Sexp]bool{}) }

func canon(v zygo.Sexp, busy map[zygo.Sexp]bool) string {
	Canon := func(x zygo.Sexp) string { return canon(x, busy) }
	switch v.(type) {
	case *zygo.SexpArray, *zygo.SexpPair:
		if busy[v] {
			return "[...]" // a container holding itself
		}
		busy[v] = true
		defer delete(busy, v)
	}
	switch x := v.(type) {
	case nil:
		return "GONIL"
	case *zygo.SexpFunction:
		return "<fn>"
	case *zygo.SexpPair:
		// proper list?
		var parts []string
		var cur zygo.Sexp = x
		for {
			p, ok := cur.(*zygo.SexpPair)
			if !ok {
				break
			}
			parts = append(parts, Canon(p.Head))
			cur = p.Tail
		}
		if cur != zygo.SexpNull {
			return x.SexpString(nil)
		}
		return "(" + strings.Join(parts, " ") + ")"
	case *zygo.SexpArray:
		parts := make([]string, len(x.Val))
		for i, e := range x.Val {
			parts[i] = Canon(e)
		}
		return "[" + strings.Join(parts, " ") + "]"
	}
	return v.SexpString(nil)
}

// Traced is an interpreter with the host functions the program grammars
// use: (t x) logs x and returns it; (h x) does the same but fails on its
// FailAt-th call (returning an error, or panicking when PanicKind);
// (fail x) always fails.
type Traced struct {
	Env       *zygo.Zlisp
	Trace     []string
	HCalls    int
	FailAt    int
	PanicKind bool
}

func NewTraced(std bool) *Traced {
	tr := &Traced{Env: New(std)}
	tr.Env.AddFunction("t", func(env *zygo.Zlisp, name string, args []zygo.Sexp) (zygo.Sexp, error) {
		if len(args) != 1 && len(args) != 2 {
			return zygo.SexpNull, fmt.Errorf("t: arity")
		}
		tr.Trace = append(tr.Trace, Canon(args[0]))
		return args[len(args)-1], nil
	})
	tr.Env.AddFunction("h", func(env *zygo.Zlisp, name string, args []zygo.Sexp) (zygo.Sexp, error) {
		if len(args) != 1 && len(args) != 2 {
			return zygo.SexpNull, fmt.Errorf("h: arity")
		}
		tr.HCalls++
		if tr.FailAt != 0 && tr.HCalls == tr.FailAt {
			tr.Trace = append(tr.Trace, "FAIL@"+Canon(args[0]))
			if tr.PanicKind {
				panic("INJECTED")
			}
			return zygo.SexpNull, fmt.Errorf("INJECTED")
		}
		tr.Trace = append(tr.Trace, Canon(args[0]))
		return args[len(args)-1], nil
	})
	tr.Env.AddFunction("fail", func(env *zygo.Zlisp, name string, args []zygo.Sexp) (zygo.Sexp, error) {
		return zygo.SexpNull, fmt.Errorf("INJECTED")
	})
	return tr
}

// Run evaluates src; the value is rendered with Canon.
func (tr *Traced) Run(src string) Res {
	r := EvalNoClear(tr.Env, src)
	if r.OK() {
		r.Val = Canon(r.Sexp)
	}
	return r
}
