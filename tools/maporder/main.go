// maporder rewrites package zygo (through a go build -overlay, never in place) so that every `range`
// over a Go map asks the explorer for the iteration order: `range X` becomes
// `range verifMapSeq(X, "file:line")`. /repo is not touched; the rewrite is regenerated from the
// current tree on every run.
//
// usage: maporder <dir of package zygo> <output dir>
package main

import (
	"encoding/json"
	"fmt"
	"go/ast"
	"go/importer"
	"go/parser"
	"go/token"
	"go/types"
	"os"
	"path/filepath"
	"sort"
	"strings"
)

type edit struct {
	off int
	txt string
}

func main() {
	dir := os.Args[1]
	out := os.Args[2]
	os.MkdirAll(out, 0755)
	fset := token.NewFileSet()
	pkgs, err := parser.ParseDir(fset, dir, func(fi os.FileInfo) bool {
		n := fi.Name()
		return !strings.HasSuffix(n, "_test.go") && n != "verif_off.go"
	}, parser.ParseComments)
	if err != nil {
		fmt.Fprintln(os.Stderr, "parse:", err)
		os.Exit(2)
	}
	var files []*ast.File
	for _, p := range pkgs {
		for _, f := range p.Files {
			files = append(files, f)
		}
	}
	conf := types.Config{Importer: importer.ForCompiler(fset, "source", nil), Error: func(err error) {}}
	info := &types.Info{Types: map[ast.Expr]types.TypeAndValue{}}
	conf.Check("zygo", fset, files, info)
	edits := map[string][]edit{}
	wrapped, skipped, untyped := 0, []string{}, 0
	for _, f := range files {
		ast.Inspect(f, func(nd ast.Node) bool {
			rs, ok := nd.(*ast.RangeStmt)
			if !ok {
				return true
			}
			tv, ok := info.Types[rs.X]
			if !ok {
				untyped++
				return true
			}
			m, isMap := tv.Type.Underlying().(*types.Map)
			if !isMap {
				return true
			}
			p0 := fset.Position(rs.X.Pos())
			p1 := fset.Position(rs.X.End())
			site := fmt.Sprintf("%s:%d", filepath.Base(p0.Filename), p0.Line)
			_, isPtr := m.Key().Underlying().(*types.Pointer)
			_, isIface := m.Key().Underlying().(*types.Interface)
			if isPtr || isIface {
				skipped = append(skipped, site+" (key "+m.Key().String()+")")
				return true
			}
			wrapped++
			edits[p0.Filename] = append(edits[p0.Filename], edit{p0.Offset, "verifMapSeq("}, edit{p1.Offset, fmt.Sprintf(", %q)", site)})
			return true
		})
	}
	ov := map[string]map[string]string{"Replace": {}}
	for fn, es := range edits {
		src, _ := os.ReadFile(fn)
		sort.Slice(es, func(i, j int) bool { return es[i].off > es[j].off })
		s := string(src)
		for _, e := range es {
			s = s[:e.off] + e.txt + s[e.off:]
		}
		dst := filepath.Join(out, filepath.Base(fn))
		os.WriteFile(dst, []byte(s), 0644)
		abs, _ := filepath.Abs(fn)
		ov["Replace"][abs] = dst
	}
	hp := filepath.Join(out, "zz_verif_maporder.go")
	os.WriteFile(hp, []byte(helper), 0644)
	absdir, _ := filepath.Abs(dir)
	ov["Replace"][filepath.Join(absdir, "zz_verif_maporder.go")] = hp
	b, _ := json.MarshalIndent(ov, "", " ")
	os.WriteFile(filepath.Join(out, "overlay.json"), b, 0644)
	rep, _ := json.Marshal(map[string]interface{}{"wrapped_sites": wrapped, "uncontrolled_sites": skipped, "untyped_range_exprs": untyped})
	os.WriteFile(filepath.Join(out, "report.json"), rep, 0644)
	fmt.Printf("maporder: wrapped %d map range sites, %d left uncontrolled %v\n", wrapped, len(skipped), skipped)
}

const helper = `package zygo

import (
	"fmt"
	"iter"
	"sort"
)

// VerifMapChooser is asked, at every range over a map with more than one key,
// which order to use: 0 = sorted keys; 1 = reversed; 2 = rotate left by one;
// 3 = rotate by half; 4 = swap the first two; 5.. = further permutations (for <=3 keys).
var VerifMapChooser func(site string, n int) int

func verifMapSeq[K comparable, V any](m map[K]V, site string) iter.Seq2[K, V] {
	return func(yield func(K, V) bool) {
		keys := make([]K, 0, len(m))
		for k := range m {
			keys = append(keys, k)
		}
		sort.Slice(keys, func(i, j int) bool { return fmt.Sprint(keys[i]) < fmt.Sprint(keys[j]) })
		n := len(keys)
		if VerifMapChooser != nil && n > 1 {
			switch VerifMapChooser(site, n) {
			case 1:
				for i, j := 0, n-1; i < j; i, j = i+1, j-1 {
					keys[i], keys[j] = keys[j], keys[i]
				}
			case 2:
				keys = append(keys[1:], keys[0])
			case 3:
				h := n / 2
				keys = append(append([]K{}, keys[h:]...), keys[:h]...)
			case 4:
				keys[0], keys[1] = keys[1], keys[0]
			case 5: // for three keys: the remaining permutations
				if n >= 3 {
					keys[1], keys[2] = keys[2], keys[1]
				}
			case 6:
				if n >= 3 {
					keys[0], keys[2] = keys[2], keys[0]
				}
			}
		}
		for _, k := range keys {
			v, ok := m[k]
			if !ok {
				continue
			}
			if !yield(k, v) {
				return
			}
		}
	}
}
`
