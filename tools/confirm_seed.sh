#!/bin/bash
# usage: tools/confirm_seed.sh <seed dir> <property id> <name> "<what it needs to manifest>"
# Confirms a seeded change in a scratch worktree of /repo (never in /repo itself):
#   unmodified tree: demo passes; with the patch: demo fails, rest of the suite passes.
# On success the seed is stored under /verif/seeded/<name>/.
set -u
seed="$1"; id="$2"; name="$3"; needs="${4:-}"
. /verif/env.sh
wt=/tmp/cs-wt-$$
git -C /repo worktree add -q --detach $wt HEAD || exit 2
trap 'git -C /repo worktree remove --force '$wt' >/dev/null 2>&1' EXIT
cp "$seed/zz_seed_test.go" $wt/zygo/
base=$( (cd $wt/zygo && timeout 300 go test -vet=off -count=1 -run TestSeedDemo . 2>&1) | tail -1)
if ! git -C $wt apply --check "$seed/patch.diff" 2>/dev/null; then echo "REJECT $name: patch does not apply to current HEAD"; exit 1; fi
git -C $wt apply "$seed/patch.diff"
with=$( (cd $wt/zygo && timeout 300 go test -vet=off -count=1 -run TestSeedDemo . 2>&1) | tail -1)
rm $wt/zygo/zz_seed_test.go
suite=$( (cd $wt/zygo && timeout 600 go test -vet=off -count=1 . 2>&1) | tail -1)
echo "unmodified+demo: $base"; echo "patched+demo:    $with"; echo "patched suite:   $suite"
case "$base" in ok*) ;; *) echo "REJECT $name: demo does not pass on the unmodified tree"; exit 1;; esac
case "$with" in ok*) echo "REJECT $name: demo does not fail with the patch"; exit 1;; esac
case "$suite" in ok*) ;; *) echo "REJECT $name: repository suite fails with the patch"; exit 1;; esac
mkdir -p /verif/seeded/$name
cp "$seed/patch.diff" "$seed/zz_seed_test.go" /verif/seeded/$name/
[ -f "$seed/notes.md" ] && cp "$seed/notes.md" /verif/seeded/$name/
python3 - "$id" "$name" "$needs" "$base" "$with" "$suite" <<'PY'
import json,sys
id,name,needs,base,withp,suite=sys.argv[1:7]
json.dump({"property":id,"name":name,"needs_to_manifest":needs,
 "confirmed":{"repo_head":open('/repo/.git/HEAD').read().strip() if False else None,
   "unmodified_tree_demo":base,"patched_demo":withp,"patched_repository_suite":suite,
   "how":"tools/confirm_seed.sh in a scratch git worktree of /repo (go test -run TestSeedDemo with and without patch.diff; full go test with the patch and without the demo file)"},
 "origin":"independent sub-agent given only the property text and a scratch worktree"}, open('/verif/seeded/%s/meta.json'%name,'w'), indent=1)
PY
echo "ACCEPT $name"
