#!/bin/bash
# kills stray checker processes by exact process name (never matches the calling shell)
pkill -9 -x vcheck; pkill -9 -x selftest.sh; sleep 0.3
pgrep -x vcheck | wc -l
