#!/usr/bin/env python3
"""Validates an evidence file against the evidence schema (a copy kept next to this script). Exit 0 = valid or
validation not possible here (no jsonschema module); exit 1 = invalid."""
import json, os, sys
try:
    import jsonschema
except Exception:
    sys.exit(0)
here = os.path.dirname(os.path.abspath(__file__))
schema = json.load(open(os.path.join(here, "EVIDENCE.schema.json")))
try:
    jsonschema.validate(json.load(open(sys.argv[1])), schema)
except Exception as e:
    print("evidence does not validate:", str(e)[:300])
    sys.exit(1)
