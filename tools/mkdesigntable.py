#!/usr/bin/env python3
"""Rewrites the generated table of DESIGN.md §10.2 (between the BEGIN/END markers) from MANIFEST.json and evidence/*.json."""
import json, os, re
V = os.path.dirname(os.path.dirname(os.path.abspath(__file__)))
m = json.load(open(os.path.join(V, "MANIFEST.json")))
rows = ["| id | level | explored on the real code, and oracle (MANIFEST `level_claimed.text`) | quick run: executions / distinct outcomes / states, transitions / wall |", "|----|-------|------|------|"]
for ch in m["checks"]:
    cid = ch["property_id"]
    ev = json.load(open(os.path.join(V, "evidence", cid + ".json")))
    c = ev["coverage"]
    st = ""
    if c.get("states") is not None:
        st = " / %s states, %s transitions" % (c.get("states"), c.get("transitions"))
    rows.append("| %s | %s | %s | %s / %s%s / %.0f s (%s) |" % (cid, ch["level_claimed"]["category"], ch["level_claimed"]["text"].replace("|", "\\|"), c.get("evaluations"), c.get("distinct_nontrivial"), st, ev["wall_s"], ev["tier"]))
p = os.path.join(V, "DESIGN.md")
s = open(p).read()
b, e = "<!-- BEGIN generated table -->", "<!-- END generated table -->"
i, j = s.index(b), s.index(e)
s = s[:i + len(b)] + "\n" + "\n".join(rows) + "\n" + s[j:]
open(p, "w").write(s)
print("table rows:", len(rows) - 2)
