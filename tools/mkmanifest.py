#!/usr/bin/env python3
"""Regenerates /verif/MANIFEST.json from the table below (kept next to the code so the two do not drift)."""
import json, os, subprocess
V = os.path.dirname(os.path.dirname(os.path.abspath(__file__)))
checks = {
 # id: (level, technique, level text, level note, design ref)
 "C14": ("model_checking", "explicit-state BFS over hset/hdel histories on the real hash, ordered-map reference model + twin hash",
         "every history of hset/hdel over a 7-key universe (incl. forced bucket collisions) to depth 4 (thorough 5) is executed on the real SexpHash; after each step every observer is compared with an ordered-map model; states are deduplicated by the hash's own three redundant structures",
         "trusts the Go reference model (slice of pairs) and the script-level observers; bounded depth and key universe", "§3 C14"),
 "C07": ("exploration", "exhaustive enumeration of all ordered pairs of a boundary grid on the real interpreter against a math/big oracle",
         "every ordered pair of a boundary grid over int64/uint64/char/float64 (quick 444 values, thorough 1030: +-2^k, 2^k+-1, float neighbours, NaN, Inf, +-0, subnormals) under all 6 comparison operators, hash lookup and + - * / mod is evaluated on the real interpreter and compared with an exact oracle",
         "trusts the math/big / Go fixed-width oracle; values outside the structured grid are not explored; pairs the property leaves unspecified are only checked for no-panic", "§3 C07"),
 "C01": ("exploration", "small-scope exhaustive enumeration of source texts (token strings, ill-typed calls, single-token mutations of every corpus form, nesting families, declarations followed by a new interpreter) through every script-facing entry point of the real library and the command-line tool; oracle = returns a value or an error",
         "every string of <=3 (thorough 4) tokens over a 60-token alphabet x 10 wrappers through EvalString, LoadString+Run, the REPL line path and the parser; every bound name, macro and special form x all argument vectors of length 0..2 (thorough 3) over 24 value/form kinds; every top-level form of the 111 corpus scripts under every prefix, single-token deletion, duplication, neighbour swap and replacement by 8 (thorough 18) tokens, evaluated after the forms before it; 31 nesting families to depth 600 (thorough 1500); 9 declaration routes x every bound/reserved name followed by construction of the next interpreter; hand list + alphabet through zygo -c / stdin / script file. No Go panic may escape, no process may die, no call may return (nil, nil), and every call returns: one still running after 90 s with the 100000-step VM budget not used up ends the worker and is confirmed by three solitary replays",
         "mutation of the corpus is bounded to one token edit per form (the property's 'unbounded mutation' is not reachable by enumeration); outside-world functions and the minutes-long debug dump are stubbed; out-of-memory is not explored; calls that wait on channels are counted, not judged", "§3 C01"),
 "C08": ("exploration", "small-scope exhaustive enumeration of every bound name and special form x canary argument vectors x call routes on real sandboxed interpreters and on cmd/zygo -sandbox; oracle = canary files, canary environment variable and secrets unchanged/unseen",
         "configurations {NewZlispSandbox(), sandbox + StandardSetup(), zygo -sandbox -c} x every name the interpreter itself reports as bound (so an added primitive is seen) + the compiler's special forms + setup macros x all argument vectors of length 0..2 (thorough 3) over a 9-item canary menu x 5 (bare) / 9 (standard) call routes incl. alias, apply, eval, macros, eval at expansion time in a duplicated interpreter; every outside-world primitive of the full interpreter is also reached for through names computed at run time, and again after the script itself has bound that name (as value, function or macro); after every call the canary directory must be byte-identical, the canary variable unchanged, no secret in value or stdout",
         "effects without a canary (network, clocks) are not judged; calls that block >4 s are counted, not judged; bounded argument vectors", "§3 C08"),
 "C02": ("exploration", "small-scope exhaustive enumeration of core-language programs, differential against a reference evaluator written in Go",
         "all depth-1 programs in 6 layout styles and all context chains of length 2 (thorough: 3, plus full depth-2 trees) over 59 contexts and 10 leaves are run on a fresh real interpreter and on the reference evaluator R1; value, error and the order of traced host calls must agree",
         "trusts R1 as the specification of the core language; programs R1 declines are skipped and counted; bounded size", "§3 C02"),
 "C09": ("exploration", "small-scope exhaustive enumeration of tail-recursive function shapes: differential against a reference evaluator without tail calls + stack high-water marks over growing depths",
         "every composition of 9 tail contexts to nesting depth 2 (thorough 3; scope-opening contexts to 4/5), the recursive call also in 9 non-tail positions, x 17 body kinds; value/effects/closure observations equal the reference evaluator for depths 0..10, and the VM stack high-water marks are identical for depths 10/60/300 (thorough 10/100/1000/100000)",
         "trusts R1 as the un-optimised semantics; high-water marks sampled in a pre-call hook via the verif accessor", "§3 C09"),
 "C03": ("exploration", "small-scope exhaustive enumeration of scope skeletons over a two-name pool, differential against a reference evaluator with textbook lexical scopes",
         "all chains of 38 scope contexts to length 3 (thorough 4) over 6 leaves reading/writing x and y, every binding a distinct integer, evaluated on a fresh real interpreter and on R1; the returned integers identify the binding seen",
         "trusts R1's environment model as the definition of lexical scoping; integer bindings only; bounded nesting", "§3 C03"),
 "C16": ("exploration", "small-scope exhaustive enumeration of lazy/strict signatures x usages x call routes, differential against a reference evaluator (memoised thunks over the caller's scope)",
         "all 28 signatures of 1..3 strict/lazy parameters (with/without variadic tail) x all assignments of 9 usages to the lazy ones x 11 call routes x {integer, list/symbol/array-valued arguments}, plus 4 multi-evaluation scenarios (a failed force is not remembered, substitute after force) x failing/zero/normal argument choices x 0..2 variadic extras; count and order of argument evaluations (host-call trace), values and errors must equal R1's",
         "trusts R1's thunk model; typed func declarations are not generated; bounded to 3 parameters", "§3 C16"),
 "C13": ("fault_enumeration", "exhaustive enumeration of cut points (where the input stream ends and the parser has to pause) over corpus + generated texts, plus explicit-state BFS over parse histories keyed by the lexer residue",
         "for the 110 corpus scripts, a hand list and every string of <=3 (thorough 4) tokens over a 40-token alphabet: whole parse vs parse with trailing newline, pause-iff-unfinished against an independent prefix scanner, every 1-cut and (short texts) every 2-cut delivered with the REPL pause protocol; 13 multi-line forms with 0-2 empty lines at every line break typed into the real REPL of cmd/zygo; BFS over histories of 18 residue-leaving inputs (depth 3/4) with 10 probe texts compared with a fresh interpreter",
         "trusts the prefix scanner R8 and the whole-text parse as reference; cuts are rune-aligned; more than two cuts are not explored", "§3 C13"),
 "C05": ("fault_enumeration", "deviation-bounded exploration of fault points (k-th host call fails, by error or by panic) over enumerated programs, oracle = reference evaluator run with the same fault",
         "every program of the C02 grammar (depth-1 full, chains of length 2) plus lazy/deep/tail/loop contexts: default run counts the host calls N, then each k<=N x {error, panic} re-runs on a fresh interpreter; result, trace, stacks at rest and a 19-item follow-up battery must equal the reference evaluator's after the same fault (thorough: + a second fault during the follow-ups); 14 malformed forms in every hole of every context and 8 unparsable texts must yield errors and leave the interpreter usable",
         "trusts R1's treatment of a fault (global effects before the fault persist); single fault per program run (thorough: two)", "§3 C05"),
 "C04": ("model_checking", "explicit-state BFS over evaluation histories on one long-lived real interpreter (state = VM stack depths + user globals + macros), plus batch evaluation of the program grammars",
         "all histories of depth 3 (thorough 4) over a 43-form alphabet covering every form family of the surface language incl. declarations, macros, packages, infix, failing forms and empty input; in every state the four VM stacks are at rest after a success, empty input evaluates to nil, and evaluating the forms in one call equals one at a time; additionally ~42k generated programs run in batches of 40 on one interpreter with stacks checked after every success",
         "state key = depths + printed user globals + macro names (read through verif accessors); bounded depth and alphabet", "§3 C04"),
 "C06": ("exploration", "small-scope exhaustive enumeration of operator/operand sequences and spacings; expansion compared with an independent tokeniser + precedence-climbing parser, value/effects compared with the prefix form",
         "all sequences operand (op operand)^n for n=1 (24 operands x 19 operators x 4 spacings), n=2 (5 operands, 19^2 operators, 16 spacings), n=3 (level-representative operators; thorough also n=4), postfix and statement-separator variants, and 16 go-style for/if programs; (infixExpand {...}) must print exactly the tree R3 derives from the documented binding powers, and {…} must evaluate like that prefix form",
         "trusts R3 (binding powers and sign rule as stated in the property); texts containing the <- / -> operators by maximal munch are outside the table and skipped", "§3 C06"),
 "C19": ("model_checking", "explicit-state BFS over histories of symbol creation / generation / duplication / cloning on a family of real interpreters sharing one table",
         "all histories of depth 5 (thorough 7) over 24 operations (MakeSymbol of fixed and would-be-generated names, GenSymbol, Duplicate, Clone on members 0..2); in every state: equal names <=> equal numbers over all symbols returned, generated symbols fresh and pairwise distinct, table a bijection; plus 8 script-level programs",
         "state key = user table entries + per-member counters + generated names, read through verif accessors; family of at most 3", "§3 C19"),
 "C15": ("exploration", "small-scope exhaustive enumeration of templates and macro call sites; value compared with an exact-substitution function, macro calls compared with hand-written expansions",
         "every list/array template of width 1..3 over 20 leaves (literals, unquotes of 6 bindings, splices of 4 lists incl. empty and nested, compound and traced unquotes) and with width-1..2 nested containers, written with the reader sugar; 18 macros x all argument tuples over 6 forms x 10 call sites x {direct, inside another macro's expansion}: value, effects and stacks vs the hand expansion; macexpand prints the exact substitution and leaves the caller's depths and globals unchanged",
         "trusts R4 (substitution inside the reference evaluator); splicing a non-list and nested syntax-quotes are skipped", "§3 C15"),
 "C12": ("exploration", "exhaustive enumeration of a structured value space (boundary numbers, the whole Unicode range in thorough, adversarial strings) through print -> read/eval, and of literal spellings against strconv/math/big",
         "ints, ~1300 floats (every 7th power of two and neighbours; thorough: every power of two and neighbours over the full exponent range), floats computed by the interpreter, bools, nil, every rune of U+0000..U+20FF + every 257th scalar above + representatives (thorough: all 1,112,064 scalars) as char and 1-char string, 2-char (3-char) adversarial strings, strings computed by concat from raw and quoted literals, one object shared twice inside a value, symbols, JSON-like hashes, each bare / in list / in array / nested: (read (str v)) and, for JSON-like values, (eval (read (str v))) equal v structurally; ~700 numeric literal spellings and all char/string literals and escapes denote their exact value",
         "structural comparison with numbers by value; hashes judged in the eval direction; literal grammar is a structured grid, not all strings", "§3 C12"),
 "C11": ("exploration", "exhaustive enumeration of a structured value space through json/unjson and msgpack/unmsgpack, with encoding/json as independent judge of the JSON text",
         "nil, bools, boundary ints, ~190 finite floats, every 1-char string over U+0000..U+20FF + every 257th scalar above + representatives (thorough: all Unicode scalars) and all 2-char adversarial strings, as scalars, in arrays, in hashes and named records (1 key x every scalar, 3 keys in all 6 orders, nested, awkward field names) and in string-keyed hashes; round trips equal the value incl. record type names and key order at every level; (json v) is accepted by encoding/json and denotes the same data",
         "NaN/Inf excluded; string-keyed hashes judged on the JSON text only; bounded nesting", "§3 C11"),
 "C17": ("model_checking", "explicit-state BFS over histories of writes to a declared struct instance through every write route, against a declaration model",
         "all histories of depth 2 (thorough 3) over ~590 operations: 8 field names x 13 value kinds x {hset, set with dot path, infix dot assignment, construction}, non-symbol keys, nested dot paths, writes through pointers, derefSet, msgmap, decoding hand-written JSON/msgpack texts, round trips, redeclaration; after every step the instance has only declared fields once each under symbol keys and every non-nil value has the declared kind under the definition in force at creation; failed writes leave the instance unchanged",
         "only the safety direction is judged plus the acceptance cases the property names; one instance under observation", "§3 C17"),
 "C18": ("exploration", "small-scope exhaustive enumeration of package trees, member names, dot paths, aliases and read/write routes against a visibility model",
         "a package tree of depth 3 (thorough 4) with values, functions, hashes (with nested hash) and nested packages under upper-case, lower-case and underscore names at every level; every member x every dot path {direct, alias of the top package, alias of each nested package on the way} x 4 read routes and 2 write routes; allowed iff the last hop is capitalised (hash fields: iff the hash is stored under a capitalised name), allowed -> the member's unique number / effective write, denied -> error and member unchanged; inside code keeps access",
         "trusts the visibility model R7; lower-case fields of hashes are not judged", "§3 C18"),
 "C10": ("exploration", "small-scope exhaustive enumeration of records of harness-registered Go struct types covering every field kind, checked with reflect.DeepEqual and an echo through Go methods",
         "Go value fixed first, record text derived from it: 48 single-field cases over 22 field kinds (incl. slices of struct values and pointers, map of interfaces, three levels of embedding), every subset of the embedded fields, 5 change-then-convert-again sequences, all (quick: a third of the) ordered pairs of fields, all triples of fields (thorough), 6 sharing patterns; SexpToGoStructs and (togo r) give DeepEqual values with one object per shared record; (_method a EchoSelf:) returns an equivalent record; 11 records with undeclared fields or wrong-kind values are reported as errors",
         "types registered by the harness through the public registry; unset fields may come back as zero values; the time.Time loss on the way back is a recorded finding pinned by the repository's own tests", "§3 C10"),
 "C20": ("model_checking", "deviation-bounded exploration of map-iteration choice points on a rebuilt package (AST rewrite through go build -overlay routes every range over a map through a chooser), plus re-runs in the same and in a fresh process",
         "for each of 102 corpus programs the default run (all maps iterated in sorted order, interpreter construction included) records the choice points (30 rewritten range sites); every single deviation (reverse, rotate, swap; all permutations for <=3 keys; thorough: + pairs of reversals) is executed and value, captured stdout and error text must equal the default run's; each program is re-run in the same process and in a fresh process",
         "1 range site keyed by interface{} (a debug dump) and maps inside third-party modules are not controlled; pointer values and clock readings are scrubbed; single (thorough: double) deviations", "§3 C20"),
}
all_ids = ["C%02d" % i for i in range(1, 21)]
pending = {i: "check not built yet in this tree (see DESIGN.md §7 build order); will be claimed when its machinery lands" for i in all_ids if i not in checks}
hook_commits = subprocess.run(["git", "-C", "/repo", "log", "--format=%H", "--grep=^verif hooks"], capture_output=True, text=True).stdout.split()
m = {
 "version": 1,
 "setup_cmd": "./setup.sh",
 "hooks": {
  "guard": "verif",
  "enable": "go build -tags verif (run.sh builds cmd/vcheck against /repo's working tree through the replace directive in /verif/go.mod)",
  "baseline_off_cmd": "cd /repo && GOFLAGS=-mod=mod GOPROXY=off go test -json -vet=off -count=1 -timeout 25m ./...",
  "source_commits": hook_commits,
  "add_only": True,
 },
 "engines": [
  {"name": "vcheck", "path": "cmd/vcheck", "serves_properties": sorted(checks), "kind_free_text": "hand-written bounded exhaustive explorer: coordinator + 16 worker processes, history BFS with replay, deviation-bounded DFS, small-scope enumeration against Go reference models; every transition is an execution of the real interpreter"},
  {"name": "maporder", "path": "tools/maporder", "serves_properties": ["C20"], "kind_free_text": "go/types based rewriter that wraps every range over a map in package zygo with a chooser seam; applied with go build -overlay, /repo is never modified"},
 ],
 "checks": [],
 "notes": "All checks: ./run.sh <id> <tier> rebuilds cmd/vcheck with -tags verif against /repo's current working tree and runs it. KNOWN_FINDINGS.txt lists recorded findings and fixed defects.",
 "not_applicable": [{"property_id": k, "reason": v} for k, v in sorted(pending.items())],
}
for cid in sorted(checks):
    level, tech, text, note, ref = checks[cid]
    m["checks"].append({
     "property_id": cid,
     "quick_cmd": "./run.sh %s quick" % cid,
     "thorough_cmd": "./run.sh %s thorough" % cid,
     "evidence_file": "/verif/evidence/%s.json" % cid,
     "replay_cmd_template": ("bin/vcheck-c20 %s replay {path}" if cid == "C20" else "bin/vcheck %s replay {path}") % cid,
     "engine": "vcheck",
     "level_claimed": {"category": level, "text": text, "design_ref": ref},
     "level_note": note,
     "technique": tech,
    })
json.dump(m, open(os.path.join(V, "MANIFEST.json"), "w"), indent=1)
print("checks:", sorted(checks), "not_applicable:", len(pending))
