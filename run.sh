#!/bin/bash
# usage: ./run.sh <property id> quick|thorough
# Rebuilds the checker against /repo's current working tree (hooks on) and runs it.
set -u
cd "$(dirname "$0")"
. ./env.sh
id="$1"; tier="${2:-quick}"
cp -f /repo/go.sum ./go.sum 2>/dev/null
mkdir -p bin
if ! go build -tags verif -o bin/vcheck ./cmd/vcheck 2>bin/build.log; then
  echo "HARNESS-ERROR build failed:"; cat bin/build.log; exit 2
fi
exec bin/vcheck "$id" "$tier"
