#!/bin/bash
# usage: ./run.sh <property id> quick|thorough
# Rebuilds the checker against /repo's current working tree (hooks on) and runs it.
set -u
cd "$(dirname "$0")"
. ./env.sh
id="$1"; tier="${2:-quick}"
# after the check: the evidence file it wrote must validate against the schema (when python3-vt + jsonschema are present)
finish() {
  if command -v python3-vt >/dev/null 2>&1 && [ -f "evidence/$id.json" ]; then
    if ! python3-vt tools/validate_evidence.py "evidence/$id.json"; then
      echo "HARNESS-ERROR evidence/$id.json does not validate against the evidence schema"
      [ "$rc" -eq 0 ] && rc=2
    fi
  fi
  exit "$rc"
}
cp -f /repo/go.sum ./go.sum 2>/dev/null
mkdir -p bin
if [ "$id" = "C20" ]; then
  # C20 runs on a build of package zygo in which every range over a map goes through a chooser.
  # The rewritten copies live under bin/mo and are passed with -overlay: /repo itself is not modified.
  go build -o bin/maporder ./tools/maporder 2>bin/build.log || { echo "HARNESS-ERROR build failed:"; cat bin/build.log; exit 2; }
  rm -rf bin/mo; mkdir -p bin/mo
  bin/maporder /repo/zygo bin/mo > bin/mo/rewrite.log 2>&1 || { echo "HARNESS-ERROR map-order rewrite failed:"; cat bin/mo/rewrite.log; exit 2; }
  if ! go build -tags "verif maporder" -overlay bin/mo/overlay.json -o bin/vcheck-c20 ./cmd/vcheck 2>bin/build.log; then
    echo "HARNESS-ERROR build failed:"; cat bin/build.log; exit 2
  fi
  bin/vcheck-c20 "$id" "$tier"; rc=$?
  finish
fi
if ! go build -tags verif -o bin/vcheck ./cmd/vcheck 2>bin/build.log; then
  echo "HARNESS-ERROR build failed:"; cat bin/build.log; exit 2
fi
bin/vcheck "$id" "$tier"; rc=$?
finish
