#!/bin/bash
# usage: ./run.sh <property id> quick|thorough
# Rebuilds the checker against /repo's current working tree (hooks on) and runs it.
set -u
cd "$(dirname "$0")"
. ./env.sh
id="$1"; tier="${2:-quick}"
cp -f /repo/go.sum ./go.sum 2>/dev/null
mkdir -p bin
if [ "$id" = "C20" ]; then
  # C20 runs on a build of package zygo in which every range over a map goes through a chooser.
  # The rewritten copies live under bin/mo and are passed with -overlay: /repo itself is not modified.
  go build -o bin/maporder ./tools/maporder 2>bin/build.log || { echo "HARNESS-ERROR build failed:"; cat bin/build.log; exit 2; }
  rm -rf bin/mo; mkdir -p bin/mo
  bin/maporder /repo/zygo bin/mo > bin/mo/rewrite.log 2>&1 || { echo "HARNESS-ERROR map-order rewrite failed:"; cat bin/mo/rewrite.log; exit 2; }
  if ! go build -tags "verif maporder" -overlay bin/mo/overlay.json -o bin/vcheck-c20 ./cmd/vcheck 2>bin/build.log; then
    echo "HARNESS-ERROR build failed:"; cat bin/build.log; exit 2
  fi
  exec bin/vcheck-c20 "$id" "$tier"
fi
if ! go build -tags verif -o bin/vcheck ./cmd/vcheck 2>bin/build.log; then
  echo "HARNESS-ERROR build failed:"; cat bin/build.log; exit 2
fi
exec bin/vcheck "$id" "$tier"
