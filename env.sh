# sourced by every script: offline Go environment that works for /repo (go 1.24.2 toolchain switch)
export GOFLAGS=-mod=mod GOPROXY=off
unset GOTOOLCHAIN GOSUMDB
export VERIF_DIR="${VERIF_DIR:-/verif}"
