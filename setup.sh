#!/bin/bash
# Run once after a fresh restore, offline: warms the Go build cache and builds the checkers
# (every check command rebuilds them again from /repo's current working tree; this only makes that fast).
set -e
cd "$(dirname "$0")"
. ./env.sh
cp -f /repo/go.sum ./go.sum
mkdir -p bin evidence replays
go build -tags verif -o bin/vcheck ./cmd/vcheck
# the C20 binary: package zygo rebuilt with the map-order seam (overlay generated from the current tree)
go build -o bin/maporder ./tools/maporder
rm -rf bin/mo; mkdir -p bin/mo
bin/maporder /repo/zygo bin/mo > bin/mo/rewrite.log 2>&1
go build -tags "verif maporder" -overlay bin/mo/overlay.json -o bin/vcheck-c20 ./cmd/vcheck
# the command-line tool, used by C01 and C08 (they rebuild it themselves; this warms the cache)
(cd /repo && go build -o /dev/null ./cmd/zygo)
echo "setup ok"
