#!/bin/bash
# Run once after a fresh restore, offline: warms the Go build cache and builds the checker.
set -e
cd "$(dirname "$0")"
. ./env.sh
cp -f /repo/go.sum ./go.sum
mkdir -p bin evidence replays
go build -tags verif -o bin/vcheck ./cmd/vcheck
echo "setup ok"
