package main

import (
	"verif/internal/engine"
	_ "verif/internal/props"
)

func main() { engine.Main() }
