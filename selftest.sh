#!/bin/bash
# usage: ./selftest.sh [pattern]   — demonstrates detection.
# For every mutants/<ID>-*.patch (or seeded/<name>/patch.diff): apply it to /repo, run the repository's own tests
# (they must still pass), run the property's quick check and require a VIOLATION line; then revert and go on.
# /repo must be clean; it is restored with `git checkout -- .` after every mutant.
set -u
cd "$(dirname "$0")"
. ./env.sh
pat="${1:-}"
if [ -n "$(git -C /repo status --porcelain)" ]; then echo "refusing: /repo is not clean"; exit 2; fi
pass=0; fail=0; report=""
# the checks rewrite evidence/<id>.json on every run: keep the files of the unchanged tree and put them back at the end
rm -rf bin/evidence.keep; mkdir -p bin; cp -r evidence bin/evidence.keep
trap 'cp -f bin/evidence.keep/*.json evidence/ 2>/dev/null; rm -rf bin/evidence.keep' EXIT
for p in mutants/*.patch seeded/*/patch.diff; do
  [ -f "$p" ] || continue
  case "$p" in *"$pat"*) ;; *) continue;; esac
  # SELFTEST_LIST: a file with one patch path per line restricts the run to those
  if [ -n "${SELFTEST_LIST:-}" ] && ! grep -qxF "$p" "$SELFTEST_LIST"; then continue; fi
  # SELFTEST_DEADLINE (epoch seconds): no further patch is started after it
  if [ -n "${SELFTEST_DEADLINE:-}" ] && [ "$(date +%s)" -ge "$SELFTEST_DEADLINE" ]; then echo "deadline reached before $p"; break; fi
  if [[ "$p" == mutants/* ]]; then id=$(basename "$p" | cut -d- -f1); else id=$(python3 -c "import json,sys;print(json.load(open('$(dirname $p)/meta.json'))['property'])"); fi
  ids="${SELFTEST_IDS:-$id}"
  if ! git -C /repo apply --check "$PWD/$p" 2>/dev/null; then echo "SKIP $p (does not apply)"; report="$report\nSKIP  $p does-not-apply"; continue; fi
  git -C /repo apply "$PWD/$p"
  t=$( (cd /repo/zygo && go test -vet=off -count=1 . 2>&1) | tail -1)
  case "$t" in ok*) tests=pass;; *) tests=FAIL;; esac
  caught=""
  for i in $ids; do
    out=$(./run.sh "$i" quick 2>&1); rc=$?
    if echo "$out" | grep -q "^VIOLATION property=$i"; then caught="$caught $i"; fi
  done
  git -C /repo checkout -- . ; git -C /repo clean -fdq zygo cmd 2>/dev/null
  if [ -n "$caught" ]; then pass=$((pass+1)); echo "CAUGHT $p by$caught (repo tests: $tests)"; report="$report\nCAUGHT $p by$caught tests=$tests"; line="CAUGHT $p by$caught tests=$tests";
  else fail=$((fail+1)); echo "MISSED $p (repo tests: $tests)"; report="$report\nMISSED $p tests=$tests"; line="MISSED $p tests=$tests"; fi
  # record this patch's result at once, so that an interrupted run keeps what it has established
  echo "$line" > bin/selftest.one; python3 tools/selftest_merge.py bin/selftest.one "$(git -C /repo log --format=%h -1)"
done
echo -e "$report" > bin/selftest.report
# selftest_results.tsv accumulates the latest result per patch (partial runs update only their own lines);
# SELFTEST.md is regenerated from it after every run.
python3 tools/selftest_merge.py bin/selftest.report "$(git -C /repo log --format=%h -1)"
echo "selftest: caught=$pass missed=$fail"
[ $fail -eq 0 ]
